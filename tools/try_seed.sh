#!/bin/bash
# try_seed.sh <seed-dir-name> <check-id> [tier] : apply a seeded change to /repo, run the check, undo it straight afterwards
s=$1; id=$2; tier=${3:-quick}
cd /verif
git -C /repo diff --quiet || { echo "/repo has uncommitted changes"; exit 9; }
git -C /repo apply /verif/seeded/$s/patch.diff || { echo "patch does not apply"; exit 8; }
cp -f evidence/$id.json build/out/evidence-$id.keep 2>/dev/null   # evidence committed must come from the unchanged tree: keep it across this run
start=$(date +%s)
./check $id --tier $tier > build/out/try-$s-$id.log 2>&1; rc=$?
end=$(date +%s)
git -C /repo checkout -- .
rm -f replays/$id/viol-*
[ -f build/out/evidence-$id.keep ] && mv -f build/out/evidence-$id.keep evidence/$id.json
echo "seed=$s check=$id tier=$tier rc=$rc secs=$((end-start)) $(grep -E '^VIOLATION|BROKEN' build/out/try-$s-$id.log | head -3 | tr '\n' ' ')"
grep -E "violation signature" build/out/try-$s-$id.log | head -3
