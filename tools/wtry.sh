#!/bin/bash
# wtry.sh <harness> <mode> [seed] [n] : run one mode, show verdict and the shrunk failing case with replay detail
h=$1; m=$2; seed=${3:-11}; n=${4:-3000}
cd /verif; mkdir -p build/out/t
python3 -c "import sys; sys.path.insert(0,'/verif/driver'); import build; sys.exit(0 if build.build_harnesses(['$h']) else 1)" || exit 1
rm -f build/out/t/$m.fail
VERIF_OUT=build/out/t/$m.json VERIF_FAIL=build/out/t/$m.fail VERIF_LAST=build/out/t/$m.last RC_PARAMS="seed=$seed max_success=$n" timeout 900 build/bin/$h $m 2>&1 | grep -v conda | grep -E "^OK|Falsifiable|ERROR|runtime error|SUMMARY|VERIF-HANG" | tail -3
if [ -f build/out/t/$m.fail ]; then cut -c1-1200 build/out/t/$m.fail; build/bin/$h --replay build/out/t/$m.fail 2>&1 | grep -v conda | cut -c1-1000 | head -14; fi
