#!/bin/bash
# usage: tools/verify_fix.sh <fix-commit in /repo> <replay file> [harness: sim_replay|wire_rc]
# Shows that the replay fails on the tree without that fix and passes with it (working tree of /repo is restored afterwards).
set -u
C=$1; R=$(readlink -f "$2"); H=${3:-sim_replay}
cd /verif; export TSAN_OPTIONS="halt_on_error=1:exitcode=96:suppressions=/verif/harness/tsan.supp"
git -C /repo diff --quiet || { echo "repo working tree not clean"; exit 2; }
git -C /repo diff "$C^" "$C" -- src | git -C /repo apply -R || { echo "cannot revert $C"; exit 2; }
python3 -c "import sys; sys.path.insert(0,'driver'); import build; build.build_harnesses(['$H'])" >/dev/null 2>&1
W=$(build/bin/$H --replay "$R" 2>&1 | grep -E "^(FAIL|PASS)|ERROR: AddressSanitizer|ERROR: LeakSanitizer|VERIF-HANG|runtime error|WARNING: ThreadSanitizer" | head -2 | tr '\n' ' ')
git -C /repo checkout -- src
python3 -c "import sys; sys.path.insert(0,'driver'); import build; build.build_harnesses(['$H'])" >/dev/null 2>&1
P=$(build/bin/$H --replay "$R" 2>&1 | grep -E "^(FAIL|PASS)|ERROR: AddressSanitizer|ERROR: LeakSanitizer|VERIF-HANG|runtime error|WARNING: ThreadSanitizer" | head -2 | tr '\n' ' ')
echo "fix=$C replay=$(basename $R) without: [$W] with: [$P]"
