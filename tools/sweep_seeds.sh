#!/bin/bash
# Applies every seeded change in turn to /repo, runs the quick check of its property, restores the tree, and writes seeded/RESULTS.md.
# /repo's working tree must be clean; nothing is committed there.  Usage: tools/sweep_seeds.sh [name-prefix ...]
cd /verif
git -C /repo diff --quiet || { echo "repo working tree not clean"; exit 2; }
out=seeded/RESULTS.md.new
echo "| seeded change | check | result | signatures |" > $out
echo "|---|---|---|---|" >> $out
for d in seeded/*/; do
  name=$(basename $d); id=${name%%-*}
  if [ $# -gt 0 ]; then keep=0; for p in "$@"; do case $name in $p*) keep=1;; esac; done; [ $keep = 1 ] || continue; fi
  res=$(tools/try_seed.sh $name $id 2>&1)
  line=$(echo "$res" | grep "^seed=" | tail -1)
  sigs=$(echo "$res" | grep -- "---- violation signature" | sed 's/---- violation signature: //' | sort -u | tr '\n' ' ')
  case "$line" in *"rc=1"*) r="caught";; *"rc=0"*) r="MISSED";; *) r="broken/not applicable: $(echo "$res" | tail -1 | cut -c1-80)";; esac
  echo "| $name | $id | $r | $sigs |" >> $out
  echo "$name $id $r $sigs"
  rm -f replays/$id/viol-*
  git -C /repo checkout -- . 2>/dev/null
done
# merge: rows of seeds not swept this time are kept from the previous table
python3 - "$out" <<'PY'
import sys
new=[l for l in open(sys.argv[1]) if l.startswith('| ') and not l.startswith('| seeded') and not l.startswith('|---')]
names=set(l.split('|')[1].strip() for l in new)
try: old=[l for l in open('/verif/seeded/RESULTS.md') if l.startswith('| ') and not l.startswith('| seeded') and not l.startswith('|---') and l.split('|')[1].strip() not in names]
except FileNotFoundError: old=[]
rows=sorted(old+new, key=lambda l: l.split('|')[1].strip())
open('/verif/seeded/RESULTS.md','w').write("| seeded change | check | result | signatures |\n|---|---|---|---|\n"+"".join(rows))
PY
rm -f $out
