#!/usr/bin/env python3
"""Regenerates MANIFEST.json from the table below (kept in one place so it is always valid)."""
import json, os, subprocess
V = os.path.dirname(os.path.dirname(os.path.abspath(__file__)))
ALL = ["C%02d" % i for i in range(1, 21)]
sys_path = os.path.join(V, "driver")
import sys
sys.path.insert(0, sys_path)
import manifest_data as M

hooks_commits = subprocess.run(["git", "-C", "/repo", "log", "--format=%h %s", "--grep=^verif hook"], stdout=subprocess.PIPE, text=True).stdout.strip().split("\n")
man = {
    "version": 1,
    "setup_cmd": "./setup.sh",
    "hooks": {
        "guard": "CARES_VERIF",
        "enable": "checks configure out-of-tree builds of /repo under /verif/build/<variant> with -DCMAKE_C_FLAGS containing -DCARES_VERIF (see driver/build.py); /repo/_build is never touched by checks",
        "baseline_off_cmd": "cmake -G Ninja -S /repo -B /repo/_build >/dev/null && cmake --build /repo/_build -j16 && ctest --test-dir /repo/_build -j8 --timeout 900",
        "source_commits": [c.split()[0] for c in hooks_commits if c],
        "add_only": True,
    },
    "engines": M.ENGINES,
    "checks": [],
    "notes": M.NOTES,
    "not_applicable": [],
}
for pid in ALL:
    c = M.CHECKS.get(pid)
    if c is None:
        man["not_applicable"].append({"property_id": pid, "reason": M.NOT_YET.get(pid, "check not built yet in this session (planned in DESIGN.md section 5); not claimed until it exists and has been run against mutants")})
        continue
    man["checks"].append({
        "property_id": pid,
        "quick_cmd": "./check %s --tier quick" % pid,
        "thorough_cmd": "./check %s --tier thorough" % pid,
        "evidence_file": "/verif/evidence/%s.json" % pid,
        "replay_cmd_template": "./check %s --replay {path}" % pid,
        "engine": c["engine"],
        "level_claimed": {"category": c.get("category", "exploration"), "text": c["text"], "design_ref": c.get("design_ref", "DESIGN.md section 5 (plan), sections 10 and 12 (corrections, as built), " + pid)},
        "level_note": c["note"],
        "technique": c["technique"],
    })
json.dump(man, open(os.path.join(V, "MANIFEST.json"), "w"), indent=1)
print("checks:", [c["property_id"] for c in man["checks"]], "n/a:", len(man["not_applicable"]))
