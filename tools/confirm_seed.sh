#!/bin/bash
# Confirm a seeded change produced by a sub-agent, in its scratch worktree /tmp/seed/<id>:
#  1. the change is applied and the tree builds; 2. the pinned test binary passes (non-Live) with it;
#  3. the demo fails with it; 4. the demo passes without it.   Writes /tmp/seed/<id>.confirm.log
# usage: confirm_seed.sh <worktree-id> ; exit 0 iff all four hold
R=${SEEDROOT:-/tmp/seed}; id=$1; wt=$R/$id; log=$R/$id.confirm.log
exec >"$log" 2>&1
set -x
cd $wt || exit 9
git diff --quiet -- src && { echo "NO CHANGE APPLIED"; exit 8; }
git diff -- src > $R/$id.patch.diff
cmake --build _build -j6 >/dev/null || { echo "BUILD FAILED"; exit 1; }
( cd _build && ./bin/arestest --gtest_filter='-*.Live*' 2>&1 | tail -3 ) > $R/$id.tests.txt
cat $R/$id.tests.txt
grep -q "PASSED" $R/$id.tests.txt && ! grep -q "FAILED" $R/$id.tests.txt || { echo "TESTS FAILED WITH CHANGE"; exit 2; }
( cd test/fuzzinput && ../../_build/bin/aresfuzz * >/dev/null ) || { echo "aresfuzz failed"; exit 2; }
( cd test/fuzznames && ../../_build/bin/aresfuzzname * >/dev/null ) || { echo "aresfuzzname failed"; exit 2; }
bash demo/build.sh >/dev/null 2>&1 || { echo "DEMO BUILD FAILED (with)"; exit 3; }
demo_bin=$(ls demo/demo demo/demo_bin 2>/dev/null | head -1)
timeout 300 $demo_bin; rc_with=$?
echo "demo with change: rc=$rc_with"
[ $rc_with -ne 0 ] || { echo "DEMO DID NOT FAIL WITH CHANGE"; exit 4; }
# (no git stash: the stash is shared by all worktrees of a repository, parallel confirmations would pop each other's changes)
git diff -- src > $R/$id.reapply.diff; git checkout -- src || exit 9
cmake --build _build -j6 >/dev/null
bash demo/build.sh >/dev/null 2>&1; timeout 300 $demo_bin; rc_without=$?
git apply $R/$id.reapply.diff || exit 9
cmake --build _build -j6 >/dev/null
echo "demo without change: rc=$rc_without"
[ $rc_without -eq 0 ] || { echo "DEMO FAILS WITHOUT CHANGE"; exit 5; }
echo "CONFIRMED $id tests=$(grep -o 'PASSED.*' $R/$id.tests.txt) with=$rc_with without=$rc_without"
exit 0
