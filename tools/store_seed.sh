#!/bin/bash
# store_seed.sh <worktree-id> <seed-name> <property> "<needs>" "<summary>"  : keep a confirmed seeded change under /verif/seeded/<seed-name>/ and remove the scratch worktree
R=${SEEDROOT:-/tmp/seed}; id=$1; name=$2; prop=$3; needs=$4; summary=$5; wt=$R/$id; dst=/verif/seeded/$name
grep -q "^CONFIRMED" $R/$id.confirm.log || { echo "not confirmed"; exit 1; }
mkdir -p $dst
( cd $wt && git diff -- src ) > $dst/patch.diff
for f in $wt/demo/*; do case "$f" in *.c|*.cc|*.cpp|*.sh|*.h|*.txt) cp "$f" $dst/;; esac; done
rm -f $dst/patch.diff.orig
python3 - "$id" "$name" "$prop" "$needs" "$summary" <<'PY'
import json,sys,re
id,name,prop,needs,summary=sys.argv[1:6]; import os; R=os.environ.get('SEEDROOT','/tmp/seed')
log=open(f'{R}/{id}.confirm.log').read()
conf=[l for l in log.split('\n') if l.startswith('CONFIRMED')][-1]
json.dump({"property":prop,"summary":summary,"needs_to_manifest":needs,
 "confirmed_by":"tools/confirm_seed.sh in a scratch worktree of /repo (since removed): rebuilt with the change; ./bin/arestest --gtest_filter=-*.Live* and the aresfuzz/aresfuzzname corpora pass with it; demo (build.sh + demo source here) exits non-zero with the change and 0 without it",
 "confirmation":conf,"origin":"independent sub-agent given only the property text"}, open(f'/verif/seeded/{name}/meta.json','w'), indent=1)
PY
git -C /repo worktree remove --force $wt && echo "stored $name, removed $wt"
