"""Build machinery: library variants of /repo (cmake+ninja, out of tree) and harness binaries
(a generated ninja file with depfiles, so edits under /repo/src or /verif/harness are picked up)."""
import os, subprocess, sys, shutil, time

VERIF = os.path.dirname(os.path.dirname(os.path.abspath(__file__)))
REPO = os.environ.get("VERIF_REPO", "/repo")
BUILD = os.path.join(VERIF, "build")
HARN = os.path.join(VERIF, "harness")

SAN_SIM = "-fsanitize=address,undefined -fno-sanitize-recover=undefined -fno-omit-frame-pointer"
VARIANTS = {
    # name: (C flags for the library, CARES_THREADS)
    "sim":   ("-O1 -g %s -fsanitize=fuzzer-no-link -DCARES_VERIF" % SAN_SIM, "OFF"),
    "tsan":  ("-O1 -g -fsanitize=thread -fno-omit-frame-pointer -DCARES_VERIF", "ON"),
    "tasan": ("-O1 -g %s -DCARES_VERIF" % SAN_SIM, "ON"),
}
HARNESS_CXX = {
    "sim":   "-O1 -g %s" % SAN_SIM,
    "tsan":  "-O1 -g -fsanitize=thread -fno-omit-frame-pointer",
    "tasan": "-O1 -g %s" % SAN_SIM,
}
# harness binary -> (source, variant, kind)   kind: rc (links rapidcheck) | fuzz (libFuzzer) | plain
HARNESSES = {
    "dsa_rc":      ("dsa_rc.cpp", "sim", "rc"),
    "wire_rc":     ("wire_rc.cpp", "sim", "rc"),
    "wire_fuzz":   ("wire_fuzz.cpp", "sim", "fuzz"),
    "sim_rc":      ("sim_rc.cpp", "sim", "rc"),
    "sim_fuzz":    ("sim_fuzz.cpp", "sim", "fuzz"),
    "sim_replay":  ("sim_replay.cpp", "sim", "plain"),
    "conf_rc":     ("conf_rc.cpp", "sim", "rc", ["conf_inc.c"]),
    "allocfail":   ("allocfail.cpp", "sim", "rc"),
    "threads_tsan":  ("threads.cpp", "tsan", "rc"),
    "threads_tasan": ("threads.cpp", "tasan", "rc"),
}


def log(msg):
    sys.stderr.write("[build] %s\n" % msg)
    sys.stderr.flush()


def run(cmd, **kw):
    return subprocess.run(cmd, **kw)


def variant_dir(v):
    return os.path.join(BUILD, v)


def configure_variant(v):
    d = variant_dir(v)
    if os.path.exists(os.path.join(d, "build.ninja")):
        return True
    os.makedirs(d, exist_ok=True)
    cflags, threads = VARIANTS[v]
    cmd = ["cmake", "-G", "Ninja", "-S", REPO, "-B", d,
           "-DCMAKE_C_COMPILER=clang", "-DCMAKE_CXX_COMPILER=clang++",
           "-DCMAKE_BUILD_TYPE=", "-DCMAKE_C_FLAGS=" + cflags,
           "-DCARES_STATIC=ON", "-DCARES_SHARED=OFF", "-DCARES_BUILD_TOOLS=OFF",
           "-DCARES_BUILD_TESTS=OFF", "-DCARES_INSTALL=OFF", "-DCARES_THREADS=" + threads]
    t = time.time()
    r = run(cmd, stdout=subprocess.PIPE, stderr=subprocess.STDOUT, text=True)
    if r.returncode != 0:
        log("cmake configure failed for %s:\n%s" % (v, r.stdout[-4000:]))
        shutil.rmtree(d, ignore_errors=True)
        return False
    log("configured %s in %.0fs" % (v, time.time() - t))
    return True


def build_variant(v):
    if not configure_variant(v):
        return False
    r = run(["cmake", "--build", variant_dir(v), "-j", "16"], stdout=subprocess.PIPE, stderr=subprocess.STDOUT, text=True)
    if r.returncode != 0:
        log("library build failed for %s:\n%s" % (v, r.stdout[-6000:]))
        return False
    return True


def libpath(v):
    return os.path.join(variant_dir(v), "lib", "libcares.a")


def write_harness_ninja(names):
    os.makedirs(os.path.join(BUILD, "h"), exist_ok=True)
    path = os.path.join(BUILD, "harness.ninja")
    out = []
    out.append("builddir = %s" % os.path.join(BUILD, "h"))
    out.append("rule cxx\n  command = clang++ -std=gnu++17 $flags -MD -MF $out.d -c $in -o $out\n  depfile = $out.d\n  deps = gcc\n  description = CXX $out")
    out.append("rule cc\n  command = clang $flags -MD -MF $out.d -c $in -o $out\n  depfile = $out.d\n  deps = gcc\n  description = CC $out")
    out.append("rule link\n  command = clang++ $flags -o $out $in $libs\n  description = LINK $out")
    for n in names:
        src, v, kind = HARNESSES[n][:3]
        extra = HARNESSES[n][3] if len(HARNESSES[n]) > 3 else []
        srcp = os.path.join(HARN, src)
        if not os.path.exists(srcp):
            continue
        inc = "-I%s/include -I%s/src/lib -I%s/src/lib/include -I%s -I%s -DCARES_STATICLIB -DHAVE_CONFIG_H -DCARES_VERIF -DVERIF_DIR='\"%s\"'" % (
            REPO, REPO, REPO, variant_dir(v), HARN, VERIF)
        cxx = HARNESS_CXX[v]
        threads_def = " -DVERIF_VARIANT_%s" % v.upper()
        obj = os.path.join(BUILD, "h", n + ".o")
        exe = os.path.join(BUILD, "bin", n)
        cflags = cxx + " " + inc + threads_def
        lflags = cxx
        libs = libpath(v) + " -lpthread"
        if kind == "fuzz":
            cflags += " -fsanitize=fuzzer-no-link"
            lflags += " -fsanitize=fuzzer"
        if kind == "rc":
            libs += " -lrapidcheck"
        out.append("build %s: cxx %s\n  flags = %s" % (obj, srcp, cflags))
        objs = [obj]
        for e in extra:
            eo = os.path.join(BUILD, "h", n + "-" + e + ".o")
            out.append("build %s: cc %s\n  flags = %s -DVERIF_SYSCONFIG_FILES_C='\"%s/src/lib/ares_sysconfig_files.c\"'" % (eo, os.path.join(HARN, e), cflags, REPO))
            objs.append(eo)
        out.append("build %s: link %s | %s\n  flags = %s\n  libs = %s" % (exe, " ".join(objs), libpath(v), lflags, libs))
        continue
    with open(path + ".tmp", "w") as f:
        f.write("\n".join(out) + "\n")
    os.replace(path + ".tmp", path)
    return path


def build_harnesses(names):
    """Build the library variants the named harnesses need, then the harnesses. Returns True on success."""
    names = [n for n in names if os.path.exists(os.path.join(HARN, HARNESSES[n][0]))]
    variants = sorted(set(HARNESSES[n][1] for n in names))
    for v in variants:
        if not build_variant(v):
            return False
    os.makedirs(os.path.join(BUILD, "bin"), exist_ok=True)
    nf = write_harness_ninja(list(HARNESSES.keys()))
    targets = [os.path.join(BUILD, "bin", n) for n in names]
    r = run(["ninja", "-f", nf, "-j", "16"] + targets, stdout=subprocess.PIPE, stderr=subprocess.STDOUT, text=True)
    if r.returncode != 0:
        log("harness build failed:\n%s" % r.stdout[-8000:])
        return False
    return True


def setup_all():
    import concurrent.futures as cf
    ok = True
    with cf.ThreadPoolExecutor(max_workers=3) as ex:
        for v, res in zip(VARIANTS, ex.map(configure_variant, list(VARIANTS))):
            ok = ok and res
    if not ok:
        return False
    return build_harnesses(list(HARNESSES.keys()))


def binpath(n):
    return os.path.join(BUILD, "bin", n)
