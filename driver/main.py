"""Check driver.  See DESIGN.md 2.3/2.4/6.

Exit codes: 0 property held on everything explored (KNOWN-FINDING lines may be printed);
            1 violation (a line `VIOLATION property=<id> replay=<path>` is printed);
            2 the check itself is broken (build failure, vacuous run, harness error) - never a VIOLATION line.
"""
import argparse, json, os, re, subprocess, sys, time, hashlib, shutil, array, signal

import build

VERIF = build.VERIF
BUILD = build.BUILD
OUT = os.path.join(BUILD, "out")
KF_FILE = os.path.join(VERIF, "known_findings.txt")


def say(msg):
    sys.stdout.write(msg + "\n")
    sys.stdout.flush()


def note(msg):
    sys.stderr.write(msg + "\n")
    sys.stderr.flush()


class Broken(Exception):
    pass


# ---------------------------------------------------------------- known findings
def load_known_findings():
    """open: property=<id> signature=<sig> repro=<path> exclude=<flag> :: <what fails>
       fixed: property=<id> <commit> <what failed>"""
    res = []
    if not os.path.exists(KF_FILE):
        return res
    for line in open(KF_FILE):
        line = line.strip()
        if not line or line.startswith("#"):
            continue
        if line.startswith("open:"):
            head, _, what = line[5:].partition("::")
            kv = {}
            # signature may contain spaces: parse keys in order
            m = re.match(r"\s*property=(\S+)\s+signature=(.*?)\s+repro=(\S+)\s+exclude=(\S*)\s*$", head)
            if not m:
                raise Broken("malformed known_findings line: " + line)
            res.append(dict(kind="open", property=m.group(1), signature=m.group(2).strip(), repro=m.group(3),
                            exclude=m.group(4), what=what.strip()))
        elif line.startswith("fixed:"):
            m = re.match(r"\s*property=(\S+)\s+(\S+)\s+(.*)$", line[6:])
            if m:
                res.append(dict(kind="fixed", property=m.group(1), commit=m.group(2), what=m.group(3)))
    return res


# ---------------------------------------------------------------- sanitizer signatures
SAN_RE = re.compile(r"(?:ERROR|WARNING): (AddressSanitizer|LeakSanitizer|ThreadSanitizer|MemorySanitizer): ([A-Za-z0-9_\- ]+?)(?: on | \(|:|$)", re.M)
UB_RE = re.compile(r"^(\S+?):(\d+):(\d+): runtime error: (.*)$", re.M)
ALLOC_FN = re.compile(r"^(default_malloc|default_realloc|ares_malloc|ares_malloc_zero|ares_realloc|ares_realloc_zero|ares_strdup|ares_malloc_data)$")
FRAME_RE = re.compile(r"^\s*#\d+ (?:0x[0-9a-f]+ in )?(\S+) (/\S+?):(\d+)", re.M)   # ASan/UBSan form and ThreadSanitizer form


def sanitizer_signature(text):
    """Return a stable signature for a sanitizer report in text, or None."""
    if "ERROR: VERIF-HANG" in text:
        return "hang:case-exceeded-cpu-budget"
    if "LEDGER: " in text:
        return "ledger:" + re.search(r"LEDGER: (.*)", text).group(1).strip().replace(" ", "-")
    m = UB_RE.search(text)
    san = SAN_RE.search(text)
    if m and (not san or m.start() < san.start()):
        f = os.path.relpath(m.group(1), build.REPO) if m.group(1).startswith(build.REPO) else os.path.basename(m.group(1))
        msg = re.sub(r"\d+", "N", m.group(4))[:60]
        # first function in the stack under /repo/src if available
        frames = [fm.group(1) for fm in FRAME_RE.finditer(text[m.start():]) if "/src/lib" in fm.group(2)][:2]
        return "ubsan:%s:%s:%s" % (f, msg.strip(), ",".join(frames))
    if san:
        kind = san.group(2).strip().replace(" ", "-")
        if san.group(1) == "LeakSanitizer":
            kind = "leak"
        frames = [fm.group(1) for fm in FRAME_RE.finditer(text[san.start():]) if "/src/lib" in fm.group(2) and not ALLOC_FN.match(fm.group(1))]
        # de-duplicate consecutive
        top = []
        for fn in frames:
            if not top or top[-1] != fn:
                top.append(fn)
            if len(top) == 3:
                break
        return "%s:%s:%s" % (san.group(1).replace("Sanitizer", "").lower() + "san", kind, ",".join(top))
    if "Assertion" in text and "failed" in text:
        m = re.search(r"(\S+):(\d+): .*Assertion `(.*)' failed", text)
        if m:
            return "assert:%s:%s" % (os.path.basename(m.group(1)), m.group(3)[:60])
    return None


def excerpt(text, nlines=45):
    lines = text.split("\n")
    start = 0
    for i, l in enumerate(lines):
        if "ERROR: " in l or "runtime error:" in l or "Falsifiable" in l or l.startswith("FAIL "):
            start = max(0, i - 1)
            break
    return "\n".join(x[:220] for x in lines[start:start + nlines])


# ---------------------------------------------------------------- running harnesses
def san_env():
    e = dict(os.environ)
    sym = shutil.which("llvm-symbolizer") or shutil.which("llvm-symbolizer-14") or ""
    e["ASAN_OPTIONS"] = "malloc_context_size=6:detect_leaks=1:abort_on_error=0:exitcode=99:allocator_may_return_null=1:detect_stack_use_after_return=0:symbolize=1:handle_abort=1:max_allocation_size_mb=4096" + (":external_symbolizer_path=" + sym if sym else "")
    e["UBSAN_OPTIONS"] = "print_stacktrace=1:halt_on_error=1:exitcode=98" + (":external_symbolizer_path=" + sym if sym else "")
    e["LSAN_OPTIONS"] = "exitcode=97:print_suppressions=0"
    e["TSAN_OPTIONS"] = "halt_on_error=1:exitcode=96:detect_deadlocks=1:second_deadlock_stack=1:suppressions=" + os.path.join(VERIF, "harness", "tsan.supp") + (":external_symbolizer_path=" + sym if sym else "")
    for k in ("LOCALDOMAIN", "RES_OPTIONS", "HOSTALIASES", "CARES_HOSTS"):
        e.pop(k, None)
    return e


class Result:
    def __init__(self):
        self.rc = None
        self.out = ""
        self.stats = None
        self.fail_sig = None
        self.fail_text = None
        self.last_text = None
        self.timed_out = False
        self.hashes = None


def run_replay(binary, args, path, timeout=120, extra_env=None):
    """Run `<binary> <args> --replay path`.  Returns (verdict, signature, output):
       verdict in pass|fail|crash|broken|timeout."""
    env = san_env()
    if extra_env:
        env.update(extra_env)
    try:
        r = subprocess.run([build.binpath(binary)] + list(args) + ["--replay", path], env=env, stdout=subprocess.PIPE,
                           stderr=subprocess.STDOUT, timeout=timeout)
    except subprocess.TimeoutExpired as ex:
        return "timeout", "hang", (ex.stdout or b"").decode("utf-8", "replace")
    text = r.stdout.decode("utf-8", "replace")
    sig = sanitizer_signature(text)
    m = re.search(r"^FAIL (.*)$", text, re.M)
    if sig and not (m and sig.startswith("leaksan")):
        return "crash", sig, text
    if m:
        return "fail", m.group(1).strip(), text
    if r.returncode == 0 and re.search(r"^PASS", text, re.M):
        return "pass", None, text
    if r.returncode < 0:
        return "crash", "signal:%d" % (-r.returncode), text
    return "broken", "rc=%d" % r.returncode, text


def start_worker(binary, args, wid, outdir, env_extra, rc_params=None):
    env = san_env()
    env["VERIF_OUT"] = os.path.join(outdir, "w%d.json" % wid)
    env["VERIF_FAIL"] = os.path.join(outdir, "w%d.fail" % wid)
    env["VERIF_LAST"] = os.path.join(outdir, "w%d.last" % wid)
    if rc_params:
        env["RC_PARAMS"] = rc_params
    env.update(env_extra or {})
    for k in ("VERIF_OUT", "VERIF_FAIL", "VERIF_LAST"):
        for suf in ("", ".hashes"):
            try:
                os.unlink(env[k] + suf)
            except OSError:
                pass
    logf = open(os.path.join(outdir, "w%d.log" % wid), "wb")
    p = subprocess.Popen([build.binpath(binary)] + list(args), env=env, stdout=logf, stderr=subprocess.STDOUT,
                         cwd=outdir, start_new_session=True)
    p._logf = logf
    p._env = env
    p._wid = wid
    return p


def collect_worker(p, outdir, timed_out=False):
    r = Result()
    r.rc = p.returncode
    r.timed_out = timed_out
    p._logf.close()
    try:
        with open(os.path.join(outdir, "w%d.log" % p._wid), "rb") as f:
            data = f.read()
            if len(data) > 400000:
                data = data[:200000] + b"\n...[cut]...\n" + data[-200000:]
            r.out = data.decode("utf-8", "replace")
    except OSError:
        pass
    try:
        r.stats = json.load(open(p._env["VERIF_OUT"]))
    except Exception:
        r.stats = None
    try:
        a = array.array("Q")
        with open(p._env["VERIF_OUT"] + ".hashes", "rb") as f:
            data = f.read()
            a.frombytes(data[: len(data) // 8 * 8])
        r.hashes = a
    except Exception:
        r.hashes = array.array("Q")
    if os.path.exists(p._env["VERIF_FAIL"]):
        t = open(p._env["VERIF_FAIL"], errors="replace").read()
        m = re.match(r"#signature (.*)\n", t)
        if m:
            r.fail_sig = m.group(1).strip()
            r.fail_text = t[m.end():]
    if os.path.exists(p._env["VERIF_LAST"]):
        r.last_text = open(p._env["VERIF_LAST"], errors="replace").read()
    return r


def run_pool(jobs, outdir, wall_cap):
    """jobs: list of (binary, args, env_extra, rc_params).  Runs all concurrently (<=16 at a time)."""
    os.makedirs(outdir, exist_ok=True)
    maxpar = int(os.environ.get("VERIF_JOBS", "16"))
    pending = list(enumerate(jobs))
    running = []
    results = [None] * len(jobs)
    t0 = time.time()
    while pending or running:
        while pending and len(running) < maxpar:
            wid, (binary, args, env_extra, rc_params) = pending.pop(0)
            running.append(start_worker(binary, args, wid, outdir, env_extra, rc_params))
        time.sleep(0.05)
        still = []
        for p in running:
            if p.poll() is not None:
                results[p._wid] = collect_worker(p, outdir)
            elif time.time() - t0 > wall_cap:
                try:
                    os.killpg(p.pid, signal.SIGKILL)
                except OSError:
                    pass
                p.wait()
                results[p._wid] = collect_worker(p, outdir, timed_out=True)
            else:
                still.append(p)
        running = still
    return results


# ---------------------------------------------------------------- minimisation (ddmin over lines)
def ddmin(units, test, budget=120, wall=float(os.environ.get("VERIF_DDMIN_WALL_S", "300"))):
    """Classic ddmin. test(list)->True if still failing with the same signature.
    Bounded by a number of replays and by wall time: a hang costs a full replay timeout per probe, and a
    violation that is reported late is worth less than one that is reported a little larger."""
    n = 2
    calls = 0
    t0 = time.time()
    while len(units) >= 2 and calls < budget and time.time() - t0 < wall:
        chunk = max(1, len(units) // n)
        subsets = [units[i:i + chunk] for i in range(0, len(units), chunk)]
        reduced = False
        for i in range(len(subsets)):
            comp = [u for j, s in enumerate(subsets) if j != i for u in s]
            calls += 1
            if comp and test(comp):
                units = comp
                n = max(n - 1, 2)
                reduced = True
                break
            if calls >= budget or time.time() - t0 >= wall:
                break
        if not reduced:
            if n >= len(units):
                break
            n = min(len(units), n * 2)
    return units


def minimise_lines(binary, args, text, want_sig, outdir, extra_env=None, keep_prefix=lambda l: l.startswith("#")):
    lines = text.split("\n")
    while lines and lines[-1] == "":
        lines.pop()
    fixed = [l for l in lines if keep_prefix(l)]
    body = [l for l in lines if not keep_prefix(l)]
    tmp = os.path.join(outdir, "ddmin.case")

    def test(sub):
        with open(tmp, "w") as f:
            f.write("\n".join(fixed + sub) + "\n")
        v, sig, _ = run_replay(binary, args, tmp, timeout=60, extra_env=extra_env)
        return v in ("fail", "crash", "timeout") and sig == want_sig

    if not test(body):
        return text  # cannot reproduce in replay form; keep as is
    body = ddmin(body, test)
    return "\n".join(fixed + body) + "\n"


# ---------------------------------------------------------------- evidence
def write_evidence(pid, tier, seed, level, coverage, wall, violations, assumptions):
    os.makedirs(os.path.join(VERIF, "evidence"), exist_ok=True)
    ev = dict(property_id=pid, tier=tier, seed=seed, level=level, coverage=coverage, assumptions=assumptions,
              wall_s=round(wall, 2), violations=violations)
    path = os.path.join(VERIF, "evidence", pid + ".json")
    with open(path + ".tmp", "w") as f:
        json.dump(ev, f, indent=1, sort_keys=True)
        f.write("\n")
    os.replace(path + ".tmp", path)


def merge_stats(results):
    ev = 0
    disc = 0
    counters = {}
    samples = []
    hs = set()
    capped = False
    for r in results:
        if r is None or r.stats is None:
            continue
        ev += r.stats.get("evaluations", 0)
        disc += r.stats.get("discarded", 0)
        capped = capped or r.stats.get("nontrivial_capped", False)
        for k, v in r.stats.get("counters", {}).items():
            counters[k] = counters.get(k, 0) + v
        for s in r.stats.get("samples", [])[:1]:
            if len(samples) < 8:
                samples.append(s)
        if r.hashes is not None:
            hs.update(r.hashes)
    return ev, disc, counters, samples, len(hs), capped


# ---------------------------------------------------------------- the generic check
class Check:
    """One property check = replays + a set of generated-search jobs on harness binaries."""
    pid = None
    level = "exploration"
    harnesses = []          # binaries to build
    rule = ""
    assumptions = []
    nontrivial_floor = {"quick": 50, "thorough": 200}
    required_counters = []  # class counters that must be non-zero, else the run is vacuous (broken)
    replay_binary = None    # binary understanding --replay
    replay_args = []

    def jobs(self, tier, seed, excludes):
        """-> list of (binary, args, env_extra, rc_params)"""
        raise NotImplementedError

    def wall_cap(self, tier):
        # wall-clock cap of the generated search; hitting it means "explored this much", never a violation.  VERIF_WALL_CAP_S overrides (used to smoke-test the thorough tiers)
        if os.environ.get("VERIF_WALL_CAP_S"):
            return int(os.environ["VERIF_WALL_CAP_S"])
        return 900 if tier == "quick" else 3000

    def replay_for(self, path):
        """(binary, args) that replays the given file."""
        return self.replay_binary, self.replay_args

    def extra_coverage(self, counters):
        return {}


def rc_params(seed, max_success, max_size=100, noshrink=False):
    return "seed=%d max_success=%d max_size=%d%s" % (seed, max_success, max_size, " noshrink=1" if noshrink else "")


def run_check(chk, tier, seed, replay=None):
    pid = chk.pid
    t0 = time.time()
    if not build.build_harnesses(chk.harnesses):
        raise Broken("build failed")
    outdir = os.path.join(OUT, pid)
    shutil.rmtree(outdir, ignore_errors=True)
    os.makedirs(outdir, exist_ok=True)

    kfs = [k for k in load_known_findings() if k["property"] == pid]
    open_kfs = [k for k in kfs if k["kind"] == "open"]
    excludes = sorted(set(k["exclude"] for k in open_kfs if k["exclude"]))
    exenv = {"VERIF_EXCLUDE": ",".join(excludes)}

    if replay:
        b, a = chk.replay_for(replay)
        v, sig, text = run_replay(b, a, replay)
        sys.stdout.write(text)
        if v in ("fail", "crash", "timeout"):
            say("VIOLATION property=%s replay=%s" % (pid, replay))
            return 1
        return 0 if v == "pass" else 2

    violations = []  # (signature, path)
    known_hits = {}

    # 1. known findings: replay each open entry
    for k in open_kfs:
        path = os.path.join(VERIF, k["repro"])
        b, a = chk.replay_for(path)
        v, sig, text = run_replay(b, a, path)
        if v in ("fail", "crash", "timeout") and sig == k["signature"]:
            say("KNOWN-FINDING: property=%s %s" % (pid, k["what"]))
            known_hits[k["signature"]] = known_hits.get(k["signature"], 0) + 1
        elif v == "pass":
            note("note: known finding no longer reproduces (%s) - consider marking it fixed" % k["repro"])
        elif v in ("fail", "crash", "timeout"):
            # fails differently: that is a different violation
            violations.append((sig, path, text))
        else:
            raise Broken("known-finding replay %s broken: %s\n%s" % (path, sig, text[-2000:]))

    # 2. regression replays (seconds-long tier)
    rdir = os.path.join(VERIF, "replays", pid)
    n_replays = 0
    if os.path.isdir(rdir):
        kf_paths = set(os.path.join(VERIF, k["repro"]) for k in open_kfs)
        for fn in sorted(os.listdir(rdir)):
            path = os.path.join(rdir, fn)
            if path in kf_paths or fn.startswith("viol-") or fn.startswith("."):
                continue
            b, a = chk.replay_for(path)
            if b is None:
                continue
            v, sig, text = run_replay(b, a, path)
            n_replays += 1
            if v in ("fail", "crash", "timeout"):
                if any(sig == k["signature"] for k in open_kfs):
                    continue
                violations.append((sig, path, text))
            elif v != "pass":
                raise Broken("replay %s broken: %s\n%s" % (path, sig, text[-2000:]))

    # 3. generated search
    jobs = chk.jobs(tier, seed, excludes)
    jobs = [(b, a, dict(exenv, **(e or {})), r) for (b, a, e, r) in jobs]
    results = run_pool(jobs, outdir, chk.wall_cap(tier))
    broken_msgs = []
    for idx, r in enumerate(results):
        b, a, e, rcp = jobs[idx]
        if r.timed_out and not r.fail_sig:
            note("worker %d hit the wall-clock cap (explored what it could; inconclusive beyond that)" % idx)
            continue
        if r.rc == 0:
            continue
        sig = None
        text = None
        ssig = sanitizer_signature(r.out)
        if ssig and not ssig.startswith("leaksan"):
            sig, text = ssig, r.last_text
        elif r.fail_sig:
            sig, text = r.fail_sig, r.fail_text
        elif ssig:
            sig, text = ssig, r.last_text   # leak reported at exit: attributed to the last case only as a hint
        if sig is None or text is None:
            broken_msgs.append("worker %d (%s %s) exited %s without a recognisable failure:\n%s" % (idx, b, " ".join(a), r.rc, r.out[-3000:]))
            continue
        if any(sig == k["signature"] for k in open_kfs):
            known_hits[sig] = known_hits.get(sig, 0) + 1
            continue
        if any(sig == v[0] for v in violations):
            continue
        # minimise + confirm on the replay binary
        rb, ra = chk.replay_for_text(text) if hasattr(chk, "replay_for_text") else chk.replay_for(None)
        case = text
        if rb:
            if not case.startswith("#"):
                case = "#harness %s %s\n" % (b, " ".join(a)) + case
            if hasattr(chk, "prepare_for_minimise"):
                case = chk.prepare_for_minimise(case)
            case = minimise_lines(rb, chk.replay_args_for_job(b, a) if hasattr(chk, "replay_args_for_job") else ra, case, sig, outdir, extra_env=exenv)
        h = hashlib.sha1(case.encode("utf-8", "replace")).hexdigest()[:10]
        os.makedirs(rdir, exist_ok=True)
        vpath = os.path.join(rdir, "viol-%s.txt" % h)
        with open(vpath, "w") as f:
            f.write("#signature %s\n" % sig if not case.startswith("#signature") else "")
            f.write(case)
        confirmed = True
        if rb:
            oks = 0
            for _ in range(2):
                v, s2, _t = run_replay(rb, chk.replay_args_for_job(b, a) if hasattr(chk, "replay_args_for_job") else ra, vpath, extra_env=exenv)
                if v in ("fail", "crash", "timeout"):
                    oks += 1
            confirmed = oks == 2
        if not confirmed:
            broken_msgs.append("failure with signature %s did not reproduce from its replay file %s\n%s" % (sig, vpath, r.out[-3000:]))
            continue
        violations.append((sig, vpath, r.out))

    ev, disc, counters, samples, distinct, capped = merge_stats(results)
    counters["replays_run"] = n_replays
    counters["known_finding_hits"] = sum(known_hits.values())
    rule = chk.rule + (" (distinct count capped per worker; counted conservatively)" if capped else "")
    coverage = dict(evaluations=ev, distinct_nontrivial=distinct, rule=rule, samples=samples, discarded=disc,
                    class_counters=counters, excluded_known=excludes, workers=len(jobs))
    coverage.update(chk.extra_coverage(counters))
    wall = time.time() - t0
    write_evidence(pid, tier, seed, chk.level, coverage, wall, len(violations), chk.assumptions)

    for sig, path, text in violations:
        note("---- violation signature: %s\n%s" % (sig, excerpt(text or "")))
        say("VIOLATION property=%s replay=%s" % (pid, os.path.relpath(path, VERIF)))
    if violations:
        return 1
    if broken_msgs:
        raise Broken("\n".join(broken_msgs))
    floor = chk.nontrivial_floor.get(tier, 2)
    if distinct < floor:
        raise Broken("vacuous run: only %d distinct non-trivial cases (floor %d)" % (distinct, floor))
    if ev > 0 and disc > ev:
        raise Broken("vacuous run: %d discarded vs %d evaluated" % (disc, ev))
    for c in chk.required_counters:
        if counters.get(c, 0) == 0:
            raise Broken("vacuous run: class counter '%s' is zero" % c)
    note("%s %s: held on %d cases (%d distinct non-trivial) in %.1fs" % (pid, tier, ev, distinct, wall))
    return 0


def main(argv):
    if argv and argv[0] == "--setup":
        return 0 if build.setup_all() else 2
    ap = argparse.ArgumentParser()
    ap.add_argument("pid")
    ap.add_argument("--tier", default=os.environ.get("VERIF_TIER", "quick"), choices=["quick", "thorough"])
    ap.add_argument("--replay", default=None)
    a = ap.parse_args(argv)
    seed = int(os.environ.get("VERIF_SEED", "1") or "1")
    if seed == 0:
        seed = 1
    import props
    chk = props.CHECKS.get(a.pid)
    if chk is None:
        note("unknown property " + a.pid)
        return 2
    try:
        return run_check(chk(), a.tier, seed, a.replay)
    except Broken as e:
        note("BROKEN-CHECK property=%s: %s" % (a.pid, e))
        return 2
