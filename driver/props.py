"""Per-property check definitions (what to run, how much, what counts as non-trivial)."""
from main import Check, rc_params


def spread(total, n):
    return max(1, total // n)


class C19(Check):
    pid = "C19"
    harnesses = ["dsa_rc"]
    replay_binary = "dsa_rc"
    rule = ("rapidcheck-generated operation programs per container (array, llist x2 lists, slist, six htable wrappers, buf), "
            "each step compared with a std:: model; non-trivial = removal followed by a later insert (array/llist/slist) or a move "
            "between lists (llist) or a reinsert (slist), > 12 live keys i.e. at least one rehash (htable), a rollback after an append "
            "that moves the position (buf); distinct = distinct program text (64-bit hash)")
    assumptions = ["reference models are std::vector/std::multimap/std::map/std::string", "hash seed fixed by hook H3, skip-list levels drawn from hook H2"]
    required_counters = ["nontrivial.array", "nontrivial.llist", "nontrivial.slist", "nontrivial.buf", "nontrivial.htable-strvp"]
    MODES = ["array", "llist", "slist", "buf", "htable-strvp", "htable-szvp", "htable-dict", "htable-asvp", "htable-vpvp", "htable-vpstr"]

    def jobs(self, tier, seed, excludes):
        n = 8000 if tier == "quick" else 200000
        jobs = []
        k = 0
        for m in self.MODES:
            reps = 2 if m in ("array", "buf", "slist", "llist") else 1
            if tier == "thorough":
                reps = 2
            for r in range(reps):
                jobs.append(("dsa_rc", [m], {}, rc_params(seed * 1000 + k, n, 200 if r else 100)))
                k += 1
        return jobs



import os, shutil
import build as _build

WIRE_ASSUME = ["refdns (harness/refdns.hpp) is the independent RFC reference; its 'supported subset' rules are listed in DESIGN.md section 4",
               "allocation ledger installed through ares_library_init_mem is the per-case leak oracle; ASan+UBSan for memory errors"]


def fuzz_job(outdir_name, mode, seed, runs, max_len=2048, corpus_src=None, idx=0):
    """A libFuzzer job on wire_fuzz.  Fresh corpus directory per run."""
    cdir = os.path.join(_build.BUILD, "out", outdir_name, "corpus-%s-%d" % (mode, idx))
    shutil.rmtree(cdir, ignore_errors=True)
    os.makedirs(cdir, exist_ok=True)
    n = 0
    for src in (corpus_src or []):
        if os.path.isdir(src):
            for fn in sorted(os.listdir(src)):
                p = os.path.join(src, fn)
                if os.path.isfile(p) and os.path.getsize(p) < 70000:
                    shutil.copy(p, os.path.join(cdir, "%04d" % n)); n += 1
    args = ["-runs=%d" % runs, "-seed=%d" % seed, "-max_len=%d" % max_len, "-entropic=0", "-timeout=25", "-rss_limit_mb=4096",
            "-print_final_stats=1", "-artifact_prefix=" + cdir + "/art-", cdir]
    return ("wire_fuzz", args, {"WIRE_MODE": mode}, None)


class WireCheck(Check):
    harnesses = ["wire_rc", "wire_fuzz"]
    replay_binary = "wire_rc"
    assumptions = WIRE_ASSUME
    PLAN_QUICK = []      # (mode, workers, cases, max_size)
    PLAN_THOROUGH = []
    FUZZ_QUICK = []      # (mode, runs, max_len)
    FUZZ_THOROUGH = []
    CORPUS = []

    def jobs(self, tier, seed, excludes):
        jobs = []
        k = 0
        for (mode, workers, cases, size) in (self.PLAN_QUICK if tier == "quick" else self.PLAN_THOROUGH):
            for w in range(workers):
                jobs.append(("wire_rc", [mode], {}, rc_params(seed * 1000 + k, cases, size)))
                k += 1
        fz = self.FUZZ_QUICK if tier == "quick" else self.FUZZ_THOROUGH
        for i, (mode, runs, max_len) in enumerate(fz):
            os.makedirs(os.path.join(_build.BUILD, "out", self.pid), exist_ok=True)
            jobs.append(fuzz_job(self.pid, mode, seed * 1000 + 500 + i, runs, max_len, self.CORPUS if mode.endswith("raw") else None, i))
        return jobs


FUZZIN = [os.path.join(_build.REPO, "test", "fuzzinput"), os.path.join(_build.REPO, "test", "fuzznames")]


class C02(WireCheck):
    pid = "C02"
    rule = ("inputs = refdns-encoded messages over every RR type and compression layout (gen), the same with 1-3 structured mutations "
            "(flip, retarget pointer, truncate, splice lengths, section counts: mut), raw bytes, the 74+45 repository corpus files, and buffers padded past 65535; "
            "each input goes through ares_dns_parse (flag set from the input), all twelve legacy reply parsers with a generated capacity, ares_expand_name/"
            "ares_expand_string (also with the documented NULL destination) at a generated offset, and on success every getter, ares_dns_write and ares_dns_record_duplicate. "
            "non-trivial = some parser got past the header to at least one RR or an accepted name used a compression pointer; distinct = distinct case text")
    required_counters = ["c02.parse_accept", "c02.parse_reject", "c02.accepted_with_pointer", "c02.legacy_a_ok", "c02.expand_name_ok"]
    PLAN_QUICK = [("C02-gen", 4, 12000, 100), ("C02-mut", 8, 12000, 100), ("C02-raw", 1, 1500, 100)]
    FUZZ_QUICK = [("C02-mut", 20000, 1024), ("C02-gen", 20000, 1024), ("C02-raw", 1500, 512)]
    PLAN_THOROUGH = [("C02-gen", 4, 400000, 150), ("C02-mut", 7, 400000, 150), ("C02-raw", 1, 40000, 100)]
    FUZZ_THOROUGH = [("C02-mut", 3000000, 2048), ("C02-mut", 3000000, 4096), ("C02-gen", 3000000, 2048), ("C02-raw", 150000, 1024)]
    CORPUS = FUZZIN


class C03(WireCheck):
    pid = "C03"
    rule = ("(i) records built only through the public setters from a generated message structure (all RR types, escaped RDATA names, shared suffixes; "
            "'bigbuild' adds bulk records so names first appear beyond offset 16384 and whole messages approach 64 KiB), (ii) records obtained from the parser "
            "on generated / mutated messages, (iii) 1-3 records written with ares_dns_write_buf_tcp() into a buffer with a generated prefix and consumed part, "
            "(iv) ares_create_query/ares_mkquery arguments.  Oracle: write ok => <= 65535 bytes, parses with c-ares and with refdns, field-by-field equality of "
            "getter dumps (original, re-parsed, reference decode), byte-identical re-write, duplicate equal; frames: length prefix == body and body parses stand-alone. "
            "non-trivial = output has a compression pointer, is > 512 bytes, or the frame sits at a non-zero buffer offset; distinct = distinct case text")
    required_counters = ["c03.write_ok", "c03.has_pointer", "c03.over_16k", "c03.tcp_frames_checked", "c03.tcp_frame_with_pointer", "c03.queries_checked", "c03.built"]
    PLAN_QUICK = [("C03-gen", 2, 12000, 100), ("C03-mut", 2, 12000, 100), ("C03-build", 5, 12000, 100), ("C03-bigbuild", 3, 500, 100), ("C03-tcp", 3, 12000, 100), ("C03-query", 1, 12000, 100)]
    FUZZ_QUICK = []
    PLAN_THOROUGH = [("C03-gen", 2, 300000, 150), ("C03-mut", 2, 300000, 150), ("C03-build", 5, 300000, 150), ("C03-bigbuild", 3, 20000, 100), ("C03-tcp", 3, 300000, 150), ("C03-query", 1, 200000, 100)]
    FUZZ_THOROUGH = [("C03-build", 2000000, 2048)]


class C04(WireCheck):
    pid = "C04"
    rule = ("differential against refdns: parser accepts => getter dump == reference lenient extraction (names compared as label bytes after RFC 1035 unescaping); "
            "reference strict (well-formed within the documented subset) => parser accepts; parser accepts what the reference cannot extract => violation; "
            "plus presentation-format round trips of generated label bytes through ares_dns_write and the parser. inputs: generated messages over every supported type, "
            "compression layout, boundary length, OPT extremes, undecoded types with empty/non-empty RDATA, their mutations, raw bytes, and parse-flag sets. "
            "non-trivial = reference extracted >= 1 RR and both decoders were asked (or a name round trip ran); distinct = distinct case text")
    required_counters = ["c04.dumps_compared", "c04.ref_strict", "c04.parser_rejects", "c04.has_pointer", "c04.name_roundtrips"]
    PLAN_QUICK = [("C04-gen", 6, 15000, 100), ("C04-mut", 6, 15000, 100), ("C04-raw", 1, 1500, 100), ("C04-names", 2, 15000, 100)]
    FUZZ_QUICK = [("C04-mut", 20000, 1024)]
    PLAN_THOROUGH = [("C04-gen", 6, 500000, 150), ("C04-mut", 6, 500000, 150), ("C04-raw", 1, 40000, 100), ("C04-names", 1, 300000, 100)]
    FUZZ_THOROUGH = [("C04-mut", 3000000, 2048), ("C04-gen", 3000000, 4096)]
    CORPUS = FUZZIN


class C18(WireCheck):
    pid = "C18"
    rule = ("every legacy ares_parse_*_reply function and ares_dns_parse on the same generated / mutated / raw message (answer sections biased towards CNAME chains "
            "followed by A/AAAA records with independent TTLs), addrttl capacity 0..7 with canaries behind the array; oracle: malformed status iff the record parser rejects, "
            "else list == records of that type in answer order, field by field (addrttl ttl = min(record, CNAME ttls)), documented no-data status when none; "
            "non-trivial = at least one record of a parser's own type was compared; distinct = distinct case text")
    required_counters = ["c18.a_compared", "c18.aaaa_compared", "c18.mx_compared", "c18.txt_compared", "c18.soa_compared", "c18.cname_chain3", "c18.both_reject", "c18.nodata"]
    PLAN_QUICK = [("C18-gen", 7, 10000, 100), ("C18-mut", 7, 10000, 100), ("C18-raw", 1, 1500, 100)]
    FUZZ_QUICK = [("C18-mut", 15000, 1024)]
    PLAN_THOROUGH = [("C18-gen", 7, 300000, 150), ("C18-mut", 7, 300000, 150), ("C18-raw", 1, 30000, 100)]
    FUZZ_THOROUGH = [("C18-mut", 2000000, 2048)]
    CORPUS = FUZZIN



SIM_ASSUME = ["virtual sockets through the public ares_set_socket_functions_ex(), virtual clock (hook H1), seeded RNG (hook H2), constant hash seed (hook H3)",
              "virtual servers decode with refdns and answer from a hash of (seed, server, question, n-th transmission); a case depends only on its scenario text",
              "library built without threads so ares_reinit() is synchronous; ASan+UBSan on; allocation ledger is the per-case leak oracle"]


def sim_fuzz_job(pid, prop, seed, runs, idx=0, max_len=600):
    cdir = os.path.join(_build.BUILD, "out", pid, "corpus-sim-%s-%d" % (prop, idx))
    shutil.rmtree(cdir, ignore_errors=True)
    os.makedirs(cdir, exist_ok=True)
    args = ["-runs=%d" % runs, "-seed=%d" % seed, "-max_len=%d" % max_len, "-entropic=0", "-timeout=60", "-rss_limit_mb=4096",
            "-print_final_stats=1", "-artifact_prefix=" + cdir + "/art-", cdir]
    return ("sim_fuzz", args, {"SIM_PROP": prop}, None)


THR_ASSUME = ["real threads, the library's own event thread on epoll / poll / select, real loopback UDP+TCP sockets and a mock DNS server thread inside the harness (harness/threads.cpp)",
              "variant tsan (ThreadSanitizer, halt_on_error, detect_deadlocks) finds races / lock-order inversions on any schedule that executes both accesses; variant tasan (ASan+UBSan) sees memory errors under concurrency",
              "schedules are not controlled: hook H4 (ares_verif_yield at every channel-lock acquisition) perturbs them with a per-thread seeded pattern; a failing program is re-run, not replayed deterministically",
              "the only wall-clock oracles ('never completes', 'exceeds retry budget') use a budget of 9x the sum of all retry timeouts + 2 s, wait twice that, and must miss three times in a row"]


def thread_jobs(prop, seed, quick, nt, na, cases_q, cases_t):
    jobs = []
    for w in range(nt):
        jobs.append(("threads_tsan", [prop], {}, rc_params(seed * 1000 + 700 + w, cases_q if quick else cases_t, 100, noshrink=True)))
    for w in range(na):
        jobs.append(("threads_tasan", [prop], {}, rc_params(seed * 1000 + 800 + w, cases_q if quick else cases_t, 100, noshrink=True)))
    return jobs


class SimCheck(Check):
    harnesses = ["sim_rc", "sim_replay", "sim_fuzz"]
    replay_binary = "sim_replay"
    assumptions = SIM_ASSUME
    WORKERS_Q = 14
    CASES_Q = 4000
    FUZZ_Q = 8000
    WORKERS_T = 14
    CASES_T = 250000
    FUZZ_T = 1500000
    SIZE = 100

    def jobs(self, tier, seed, excludes):
        jobs = []
        quick = tier == "quick"
        for w in range(self.WORKERS_Q if quick else self.WORKERS_T):
            jobs.append(("sim_rc", [self.pid], {}, rc_params(seed * 1000 + w, self.CASES_Q if quick else self.CASES_T, self.SIZE if w % 3 else 200, noshrink=True)))   # scenarios are minimised by ddmin over lines in the driver
        nf = 2
        os.makedirs(os.path.join(_build.BUILD, "out", self.pid), exist_ok=True)
        for i in range(nf):
            jobs.append(sim_fuzz_job(self.pid, self.pid, seed * 1000 + 900 + i, self.FUZZ_Q if quick else self.FUZZ_T, i))
        return jobs


class C01(SimCheck):
    pid = "C01"
    rule = ("scenarios of 1-8 requests over all ten entry points (send/query/search dnsrec and legacy byte forms, getaddrinfo, gethostbyname, gethostbyaddr, getnameinfo), names incl. escaped "
            "hostname characters and boundary lengths, 1-3 servers, all reply kinds, callback scripts that start requests and/or call ares_cancel, cancel/reinit/setservers lines, socket faults, "
            "arbitrary step/advance interleavings, then drain and ares_destroy; oracle: per-request callback count exactly 1 (never 2 at any instant, none after destroy), ECANCELLED/EDESTRUCTION "
            "for requests pending at cancel/destroy, every result fully read under ASan, allocation ledger empty. non-trivial = >= 2 requests and a callback that starts a request or cancels, "
            "a socket fault, a timeout, or a search with >= 2 candidates; distinct = distinct scenario text")
    required_counters = ["c01.cb_starts_request", "c01.cb_cancels", "sim.with_socket_faults", "sim.with_timeouts", "sim.search_2plus_candidates", "sim.with_cancel"]


class C05(SimCheck):
    pid = "C05"
    rule = ("request histories with an adversary: for a live request a packet is fabricated that differs from the genuine reply in exactly one of qid, name, type, class, letter case (0x20 on), "
            "source address, socket, cookie presence / client part, or is a late reply to a transmission since re-sent on another socket; every record handed to a callback carries a provenance "
            "serial (in the address bits / TXT / PTR name / SOA serial) that must be registered genuine and belong to that request's question. "
            "non-trivial = at least one forged or stale packet was actually delivered to an open socket; distinct = distinct scenario text")
    required_counters = ["c05.injected"]
    nontrivial_floor = {"quick": 50, "thorough": 200}


class C06(SimCheck):
    pid = "C06"
    rule = ("1-3 single-question requests, 1-3 servers, per-attempt outcomes from the full table, tries 1..100 (64, 65, 70, 100 on purpose), timeout 1..100000 ms, maxtimeout, rotate, udpmax, "
            "server-list edits and socket faults; oracle: transmissions per wire query (same id) <= servers*tries + 5 (+1 per server for probes), drain ends with a status within a step budget of "
            "virtual time, attempts that ended by timeout (silent server, nothing else delivered) waited >= the base timeout clamp(configured or 250 ms once the server has history, 250, cap), "
            "ares_timeout() never exceeds maxtimeout, UBSan silent. non-trivial = at least one wire query was retried; distinct = distinct scenario text")
    required_counters = ["c06.retried_queries", "c06.timeout_waits_checked", "c06.round2plus"]


class C07(SimCheck):
    pid = "C07"
    rule = ("(a) simulator: after every step and before every drain advance ares_timeout() is checked with five caller maxima (non-negative, normalised, <= max); the hint h is tested by "
            "counterfactual execution: a forked child advances the virtual clock by h-1us and processes with no descriptor (any transmission, completion or server failure there means a deadline "
            "lay before the hint), the parent advances by exactly h (nothing happening and a next hint of 0 means the hint was not live); up to 6 such checks per scenario. "
            "non-trivial = a counterfactual check ran with >= 2 outstanding requests; distinct = distinct scenario text. (b) event-thread part: see C07 note in DESIGN (threads harness)")
    required_counters = ["c07.counterfactual_checks", "c07.checks_with_2plus_deadlines", "thr.completed_timeout", "thr.backend.epoll", "thr.backend.poll", "thr.backend.select"]
    harnesses = ["sim_rc", "sim_replay", "sim_fuzz", "threads_tasan", "threads_tsan"]
    assumptions = SIM_ASSUME + ["(b) " + x for x in THR_ASSUME]

    def jobs(self, tier, seed, excludes):
        # thread jobs first: they are slow in wall time (real timeouts) and must not queue behind the simulator workers
        return thread_jobs("C07", seed, tier == "quick", 1, 4, 40, 2000) + SimCheck.jobs(self, tier, seed, excludes)

    def replay_for_text(self, text):
        return ("threads_tasan", []) if "\nbackend " in "\n" + text else ("sim_replay", [])

    def replay_for(self, path):
        try:
            return self.replay_for_text(open(path).read())
        except Exception:
            return ("sim_replay", [])

    CASES_Q = 1500
    FUZZ_Q = 2000
    CASES_T = 60000
    FUZZ_T = 300000


class C10(SimCheck):
    pid = "C10"
    rule = ("C01/C06-style histories with UDP, TCP, fast-open on/off, udp_max_queries 1..5, STAYOPEN, pending-write callback, ares_process_fds / ares_process_fd / legacy ares_fds+ares_process, stale "
            "events for closed descriptors, and faults at asocket/asetsockopt/aconnect/agetsockname/asendto/arecvfrom; oracle over the virtual socket call log (descriptors never reused): every "
            "descriptor closed exactly once and none open after ares_destroy, no call or notification on a closed/unknown descriptor, <= udp_max_queries datagrams per UDP descriptor, exactly one "
            "final (0,0) socket-state notification iff a watch was announced. non-trivial = >= 2 sockets opened; distinct = distinct scenario text")
    required_counters = ["c10.sockets_opened", "sim.with_socket_faults", "sim.tcp_transmissions"]


class C20(SimCheck):
    pid = "C20"
    rule = ("metamorphic: each generated scenario (one server; TCP forced or reached through truncated UDP answers; 1-8 concurrently queued queries; inbound read chunks down to 1 byte; "
            "short-write / would-block patterns; pending-write notification on/off; fast open on/off; zero-length datagrams) is run twice - as generated, and with whole transport and no zero-length "
            "datagrams - under the same seed; both runs must give the same per-request (status, address count, which server answers were delivered) and the same set of messages at the server. "
            "Independently: every TCP frame at the server decodes, a delivered truncated UDP answer is followed by the same question over TCP unless IGNTC. Scenarios whose connection is torn down "
            "abnormally are run but not compared. non-trivial = some message was delivered in >= 2 reads or written in >= 2 writes; distinct = distinct scenario text")
    required_counters = ["c20.metamorphic_pairs", "c20.split_reads", "c20.short_writes", "c20.tc_upgraded_to_tcp"]
    CASES_Q = 2500
    FUZZ_Q = 3000
    CASES_T = 120000
    FUZZ_T = 600000


class C08(SimCheck):
    pid = "C08"
    rule = ("histories of up to 10 requests over two names through query/send (dnsrec), legacy byte forms, getaddrinfo and gethostbyname, with key variations (case, trailing dot, type incl. unnamed types 99/100), "
            "replies with TTL mixes, NXDOMAIN/NODATA with and without SOA, TC and error rcodes, qcache in {0,1,60,3600,86400}, clock advances across TTL boundaries, set_servers/reinit; oracle (soundness of hits, "
            "a miss is always allowed): a request completed with server data but without any transmission of its own question must carry the provenance serial of an earlier accepted reply with the same "
            "name/type, not truncated, rcode NOERROR/NXDOMAIN, cache enabled, no server-set change or reinit in between, age <= min(qcache, min TTL | min(SOA ttl, SOA minimum)), and every TTL the callback "
            "sees (record getters, decoded legacy bytes, ai_ttl) equals original - age within one second. non-trivial = a hit after virtual time passed; distinct = distinct scenario text")
    required_counters = ["c08.hits", "c08.hits_after_time_passed", "c08.ttl_checks.dnsrec"]
    nontrivial_floor = {"quick": 30, "thorough": 200}


class C12(SimCheck):
    pid = "C12"
    rule = ("names (single label, dots, trailing dot, escaped, boundary length) x ndots 0..3 x domain lists incl. the root x NOSEARCH/NOALIASES x HOSTALIASES file x per-candidate outcomes "
            "(answer, NXDOMAIN, NODATA with/without SOA, plus explicit rules) for ares_search_dnsrec, ares_search, ares_getaddrinfo, ares_gethostbyname; reference candidates(name, cfg) written from "
            "resolv.conf(5); oracle: the distinct question names the virtual server sees for the request are, in order, a prefix of the reference list; for plain searches with one decisive reply per "
            "candidate the prefix is cut exactly at the first candidate with data or a hard error and the final status is that outcome, else ENODATA if any candidate was NODATA, else the last status "
            "(SERVFAIL/REFUSED on a single-label candidate may continue or stop). non-trivial = the reference list has >= 2 candidates; distinct = distinct scenario text")
    required_counters = ["c12.orders_checked", "c12.requests_with_2plus_candidates", "c12.stop_rules_checked"]


class C13(SimCheck):
    pid = "C13"
    rule = ("getaddrinfo / gethostbyname / gethostbyaddr / getnameinfo against answers with CNAME chains, 1-40 A/AAAA records, mixed families in one answer, TTL mixes, hint flags (CANONNAME, NOSORT, "
            "ENVHOSTS), families, ports, lookups b/f/bf/fb and generated hosts files; oracle: multiset{(family, address)} of the result == A/AAAA records of the accepted answers restricted to the "
            "requested family (hostent: one family), port and TTL per node, hosts-file results between the lines naming the host and the documented merged entry, reverse lookups ask exactly the "
            "reverse-map name and return only PTR targets. non-trivial = >= 2 addresses or a CNAME chain; distinct = distinct scenario text")
    required_counters = ["c13.dns_results_checked", "c13.with_cname_chain", "c13.reverse_names_checked", "c13.hosts_results_checked"]


class C09(SimCheck):
    pid = "C09"
    rule = ("1-5 servers, rotate on/off, failover options (chance 0/1/10, delay 0..60000 ms), per-attempt outcomes from the table, set_servers edits in flight; reference model fed only by public "
            "observations: consecutive-failure counters reconstructed from the ares_set_server_state_callback stream, merged in observation order with configured lists and transmissions; oracle: every "
            "UDP transmission of a user query that is not an EDNS-downgrade resend goes to a server with the minimum counter (the first such in configuration order without rotate); a probe copy (second "
            "id for the same question) goes only to a server with failures > 0 whose retry delay has passed, never when failover is disabled, and its reply never reaches the user; accepted answers are "
            "reported as success of that server; after ares_set_servers* the channel reports exactly the given set. non-trivial = a selection was checked after some server had failed (>= 2 servers); "
            "distinct = distinct scenario text")
    required_counters = ["c09.selections_checked", "c09.selections_after_failures", "c09.probe_copies"]


class C11(Check):
    pid = "C11"
    harnesses = ["threads_tsan", "threads_tasan"]
    replay_binary = "threads_tsan"
    replay_args = ["C11"]
    assumptions = THR_ASSUME
    rule = ("generated programs of 2-6 client threads, 6-45 operations in total: query / search / getaddrinfo / gethostbyname (names selecting answer, delayed answer, silence, truncation->TCP, "
            "NXDOMAIN at the mock server), ares_cancel, ares_set_servers_ports_csv, ares_reinit, ares_queue_wait_empty(1-300 ms), ares_queue_active_queries, ares_timeout, sleeps; a fifth of the "
            "requests carry a completion callback that calls ares_reinit / starts a query / calls ares_cancel on the event thread; backend epoll|poll|select, STAYOPEN / USEVC / rotate, optional "
            "unreachable first server, optional server that falls silent after k answers. Oracle: ThreadSanitizer and ASan/UBSan silent; every request exactly one callback (none after "
            "ares_destroy returned); ares_queue_wait_empty()==SUCCESS implies every request whose issuing call had returned before the wait began has completed; after all client threads finished "
            "the queue drains within the retry budget; wall-clock alarm as deadlock oracle. non-trivial = >= 2 client threads issued requests while another thread's request was pending and >= 1 "
            "reconfiguration (reinit / set_servers) happened; distinct = distinct program text")
    required_counters = ["thr.requests", "thr.reconfigurations", "thr.overlapping_issues", "thr.wait_empty_success", "thr.cb_reinit", "thr.cb_cancel", "thr.backend.epoll", "thr.backend.poll", "thr.backend.select"]
    nontrivial_floor = {"quick": 30, "thorough": 200}

    def jobs(self, tier, seed, excludes):
        return thread_jobs("C11", seed, tier == "quick", 8, 4, 120, 4000)

    def replay_for(self, path):
        return "threads_tsan", []


class C14(SimCheck):
    pid = "C14"
    level = "fault_enumeration"
    rule = ("scenario family: generated simulator histories (init with generated options, all ten request kinds to completion against answers / negative answers / timeouts / TCP fallback, cache hits, "
            "set_servers / reinit, cancel, callbacks that start requests or cancel, bursts of 10-22 requests outstanding at once, destroy). Each scenario is first run with a counting allocator "
            "(ares_library_init_mem) to learn its allocation count N, then re-run once per chosen index n with exactly allocation n refused: 4-11 generated indices per scenario, or every n in 1..N "
            "(2 workers in quick, all workers in thorough, and always for the fixed family in replays/C14/family-*.txt). Oracle per faulted run: ASan/UBSan silent, every request gets exactly one "
            "callback, nothing started after the refused allocation reports ARES_ENOMEM, a fresh request issued afterwards completes before destroy, allocation ledger empty after ares_destroy "
            "(also after a failed ares_init_options). Wire family (2 workers): generated / mutated messages through ares_dns_parse + getters + ares_dns_write + duplicate, the twelve legacy reply "
            "parsers and ares_expand_name/string, first counted, then with each allocation index refused (all indices when N <= 600, else the first 200 and 400 spread evenly); oracle: the "
            "result/no-result invariants of C02 still hold, ledger back to its starting value. evaluations = scenarios + messages; the number of faulted runs is class counter c14.runs_with_one_refused_allocation. "
            "non-trivial = the refused allocation happened while at least one request was in flight; distinct = distinct scenario text")
    required_counters = ["c14.runs_with_one_refused_allocation", "c14.faults_with_requests_in_flight", "c14.faults_during_init", "c14.scenarios_enumerated_exhaustively"]
    CASES_Q = 200
    CASES_T = 4000
    ALL_CASES_Q = 10
    nontrivial_floor = {"quick": 50, "thorough": 200}

    def jobs(self, tier, seed, excludes):
        jobs = []
        quick = tier == "quick"
        for w in range(14):
            exhaustive = (not quick) or w >= 12
            n = (self.ALL_CASES_Q if quick else self.CASES_T // 10) if exhaustive else self.CASES_Q
            jobs.append(("sim_rc", [self.pid], {"SIM_C14_ALL": "1" if exhaustive else "0"}, rc_params(seed * 1000 + w, n, self.SIZE if w % 3 else 200, noshrink=True)))
        # wire family: every decoder / re-encoder of the C02 harness under each single refused allocation (two workers)
        for i, mode in enumerate(["C14-gen", "C14-mut"]):
            jobs.append(("wire_rc", [mode], {"SIM_C14_ALL": "0" if quick else "1"}, rc_params(seed * 1000 + 500 + i, 1500 if quick else 60000, 100, noshrink=True)))
        return jobs

    harnesses = ["sim_rc", "sim_replay", "wire_rc"]

    def replay_for_text(self, text):
        return ("wire_rc", []) if "\nkind " in "\n" + text else ("sim_replay", [])

    def replay_for(self, path):
        try:
            return self.replay_for_text(open(path).read())
        except Exception:
            return ("sim_replay", [])

    def prepare_for_minimise(self, text):
        if "\nkind " in "\n" + text:
            return text
        # the index of the refused allocation shifts when lines are deleted: minimise against "some index fails"
        return "\n".join(("failat all" if l.startswith("failat") else l) for l in text.split("\n"))


CONF_ASSUME = ["library variant 'sim' (no threads: ares_reinit is synchronous), ASan+UBSan, allocation ledger as per-case leak oracle, 10 s CPU watchdog per case as the hang oracle",
               "system files outside the harness's control (/etc/nsswitch.conf, /etc/hosts of the sandbox) are read by both members of every compared pair alike",
               "channel fields are read through the internal header (as test/ares-test-internal.cc does) in addition to ares_save_options / ares_get_servers_csv"]


class ConfCheck(Check):
    harnesses = ["conf_rc"]
    replay_binary = "conf_rc"
    assumptions = CONF_ASSUME
    PLAN_QUICK = []
    PLAN_THOROUGH = []

    def jobs(self, tier, seed, excludes):
        jobs = []
        k = 0
        for (mode, workers, cases, size) in (self.PLAN_QUICK if tier == "quick" else self.PLAN_THOROUGH):
            for w in range(workers):
                jobs.append(("conf_rc", [mode], {}, rc_params(seed * 1000 + k, cases, size, noshrink=True)))
                k += 1
        return jobs


class C15(ConfCheck):
    pid = "C15"
    rule = ("metamorphic pairs per configuration source: a list of grammar-valid directive lines (resolv.conf: nameserver incl. bracketed/port forms, search, domain, options ndots/timeout/attempts/"
            "retrans/retry/rotate, sortlist with numeric and dotted masks, lookup; nsswitch.conf hosts:, netsvc/svc.conf hosts=, hosts file, HOSTALIASES file) and the same list with 1-4 junk lines "
            "inserted at generated positions - unknown keywords, comments, binary or 700-byte tokens, and known keywords with malformed values (timeout:0, ndots:abc, ndots:-1, 20-digit numbers, "
            "nameserver with bad address/port, sortlist x/99, empty values) - plus RES_OPTIONS / LOCALDOMAIN; oracle: both initialise, the effective configuration (every channel field, servers "
            "csv, lookups; hosts and alias lookups for those kinds) is identical, values within range (tries, timeout >= 1 and <= INT_MAX, lookups in {b,f}, sortlist masks <= 32/128, servers "
            "present), no sanitizer report, ledger empty, no hang. Arbitrary strings through ares_set_sortlist, ares_set_servers_csv / _ports_csv and the options-string parser: error or in-range "
            "configuration, a failed setter changes nothing. non-trivial = at least one valid and one junk line (pairs) or a non-empty string; distinct = distinct case text")
    required_counters = ["c15.resolv_pairs", "c15.nss_pairs", "c15.svc_pairs", "c15.hosts_pairs", "c15.hosts_hits", "c15.aliases_pairs", "c15.alias_hits", "c15.sortlist_accepted", "c15.sortlist_rejected", "c15.csv_accepted", "c15.csv_rejected", "c15.options_strings"]
    PLAN_QUICK = [("C15-resolv", 6, 6000, 100), ("C15-nss", 1, 5000, 100), ("C15-svc", 1, 5000, 100), ("C15-hosts", 2, 4000, 100), ("C15-aliases", 1, 4000, 100), ("C15-sortlist", 1, 6000, 100), ("C15-csv", 2, 6000, 100), ("C15-options", 1, 8000, 100)]
    PLAN_THOROUGH = [("C15-resolv", 6, 400000, 150), ("C15-nss", 1, 200000, 100), ("C15-svc", 1, 200000, 100), ("C15-hosts", 2, 200000, 150), ("C15-aliases", 1, 200000, 100), ("C15-sortlist", 1, 300000, 150), ("C15-csv", 2, 300000, 150), ("C15-options", 1, 400000, 150)]


class C16(ConfCheck):
    pid = "C16"
    rule = ("generated application configurations: 2-10 of the 18 ares_init_options settings (flags, timeout in both forms, tries, ndots, maxtimeout, udp/tcp port, rotate/norotate, ednspsz, udpmax, "
            "qcache, failover, lookups, domains, sortlist, IPv4 servers) incl. the zero / negative values documented as 'use default', 0-2 server lists through ares_set_servers_csv, "
            "_ports_csv, ares_set_servers and ares_set_servers_ports (IPv4 / IPv6, default, equal and differing UDP/TCP ports, dns:// form), ares_set_sortlist, local ip4/ip6/device, combined with "
            "a generated resolv.conf, RES_OPTIONS / LOCALDOMAIN and optionally an ares_reinit after the file was replaced; oracle: every value the application supplied (and initialisation accepted) "
            "is the channel's value after init and after reinit; ares_get_servers_csv fed to ares_set_servers_ports_csv on a fresh channel reproduces itself; ares_dup gives identical effective "
            "settings, server list and local bindings; ares_save_options + ares_init_options gives an identical channel (servers only where the legacy structure can express them) and saving "
            "again gives the same option mask. After a reinit with a changed file only application-supplied fields are compared (a duplicate re-reads the current file). "
            "non-trivial = option mask with >= 5 bits and a resolv.conf or a server needing the bracketed / dns:// form; distinct = distinct case text")
    required_counters = ["c16.server_sets_applied", "c16.reinits", "c16.csv_round_trips", "c16.dups_compared", "c16.save_init_compared"]
    PLAN_QUICK = [("C16-c16", 14, 5000, 100)]
    PLAN_THOROUGH = [("C16-c16", 14, 400000, 150)]


class C17(SimCheck):
    pid = "C17"
    rule = ("1-3 servers with cookie behaviours {none, valid, changing server cookie, wrong client part, client-part only} that can change mid-run, BADCOOKIE replies, source-address changes, "
            "adversarial cookie-less replies, clock advances across 120 s / 300 s / 86400 s, UDP and TCP (after TC or BADCOOKIE fallback), plus a scripted life-cycle production (prove support, "
            "cookie-less reply, more valid traffic, cross a timer, test again); reference rules restricted to the statement: no COOKIE option over TCP; client part unchanged across transmissions to a "
            "server unless the source address changed, it is a day old, or a non-supporting reply arrived / the regression period ran out; the server part echoed is the latest one delivered for that "
            "client cookie; <= 3 BADCOOKIE-triggered UDP resends before TCP; once support is proven a reply without a valid cookie is not accepted until 120 s after the first such reply. "
            "non-trivial = a server cookie was echoed and a timer/rotation cause was exercised; distinct = distinct scenario text")
    required_counters = ["c17.server_cookie_echo_checks", "c17.timer_crossings"]


CHECKS = {"C11": C11, "C15": C15, "C16": C16, "C14": C14, "C17": C17, "C09": C09, "C12": C12, "C13": C13, "C08": C08, "C19": C19, "C02": C02, "C03": C03, "C04": C04, "C18": C18, "C01": C01, "C05": C05, "C06": C06, "C07": C07, "C10": C10, "C20": C20}
