"""Per-property check definitions (what to run, how much, what counts as non-trivial)."""
from main import Check, rc_params


def spread(total, n):
    return max(1, total // n)


class C19(Check):
    pid = "C19"
    harnesses = ["dsa_rc"]
    replay_binary = "dsa_rc"
    rule = ("rapidcheck-generated operation programs per container (array, llist x2 lists, slist, six htable wrappers, buf), "
            "each step compared with a std:: model; non-trivial = removal followed by a later insert (array/llist/slist) or a move "
            "between lists (llist) or a reinsert (slist), > 12 live keys i.e. at least one rehash (htable), a rollback after an append "
            "that moves the position (buf); distinct = distinct program text (64-bit hash)")
    assumptions = ["reference models are std::vector/std::multimap/std::map/std::string", "hash seed fixed by hook H3, skip-list levels drawn from hook H2"]
    required_counters = ["nontrivial.array", "nontrivial.llist", "nontrivial.slist", "nontrivial.buf", "nontrivial.htable-strvp"]
    MODES = ["array", "llist", "slist", "buf", "htable-strvp", "htable-szvp", "htable-dict", "htable-asvp", "htable-vpvp", "htable-vpstr"]

    def jobs(self, tier, seed, excludes):
        n = 8000 if tier == "quick" else 200000
        jobs = []
        k = 0
        for m in self.MODES:
            reps = 2 if m in ("array", "buf", "slist", "llist") else 1
            if tier == "thorough":
                reps = 2
            for r in range(reps):
                jobs.append(("dsa_rc", [m], {}, rc_params(seed * 1000 + k, n, 200 if r else 100)))
                k += 1
        return jobs


CHECKS = {"C19": C19}
