ENGINES = [
    {"name": "rapidcheck", "path": "/usr/include/rapidcheck.h", "serves_properties": ["C19"], "kind_free_text": "property-based testing library (generators + shrinking), configured only through RC_PARAMS"},
]
NOTES = "All checks are generated-input search against explicit oracles (property-based testing / fuzzing). Driver: ./check <ID> --tier quick|thorough [--replay F]; see DESIGN.md."
NOT_YET = {}
CHECKS = {
    "C19": dict(
        engine="rapidcheck",
        technique="model-based property testing: rapidcheck-generated operation programs per container compared step by step with std:: reference models (+ exact per-case allocation ledger, ASan/UBSan)",
        text="Exploration: tens of thousands (quick) to millions (thorough) of generated operation sequences per container, every step compared with a trivial reference model, destructor calls and allocations accounted exactly. Not a proof: only sequences up to ~200 operations over the generated argument distribution are explored.",
        note="Trusted: the std:: reference models in harness/dsa_rc.cpp, rapidcheck, clang sanitizers. Fixed hash seed (hook H3) and seeded skip-list levels (hook H2) make runs reproducible; hash-collision-heavy tables are reached only by chance.",
    ),
}
