ENGINES = [
    {"name": "rapidcheck", "path": "/usr/include/rapidcheck.h", "serves_properties": ["C02", "C03", "C04", "C18", "C19"], "kind_free_text": "property-based testing library (generators + shrinking), configured only through RC_PARAMS"},
    {"name": "libFuzzer", "path": "clang -fsanitize=fuzzer", "serves_properties": ["C02", "C03", "C04", "C18"], "kind_free_text": "coverage-guided fuzzing; the semantic oracle runs inside the target (harness/wire_fuzz.cpp), structure-aware decoding of the input bytes"},
    {"name": "refdns", "path": "harness/refdns.hpp", "serves_properties": ["C02", "C03", "C04", "C18"], "kind_free_text": "independent RFC 1035/2782/3403/6891/6698/7553/8659/9460 codec used as differential oracle and re-parser"},
]
NOTES = "All checks are generated-input search against explicit oracles (property-based testing / fuzzing). Driver: ./check <ID> --tier quick|thorough [--replay F]; see DESIGN.md."
NOT_YET = {}
WIRE_NOTE = "Trusted: refdns (written from the RFCs, shares nothing with c-ares; its documented-subset rules are in DESIGN.md section 4), rapidcheck, libFuzzer, clang ASan/UBSan, the allocation ledger. Explores generated and mutated messages up to 64 KiB; absence of violations is not proved."
CHECKS = {
    "C02": dict(engine="rapidcheck+libFuzzer", technique="structure-aware fuzzing + property-based generation: generated/mutated/raw messages through every decoding entry point under ASan+UBSan, per-case allocation ledger, CPU watchdog, result/no-result and backward-pointer invariants",
        text="Exploration: ~190k (quick) to millions (thorough) of inputs per run through ares_dns_parse (all flag sets), the 12 legacy reply parsers, ares_expand_name/string, then getters/write/duplicate; memory errors, UB, leaks, non-termination and result/no-result mismatches are all visible per case.", note=WIRE_NOTE),
    "C03": dict(engine="rapidcheck+libFuzzer", technique="round-trip property testing: records from public setters and from the parser -> write -> parse (c-ares and refdns) -> field-by-field dump equality -> byte-identical rewrite; TCP frames at generated buffer offsets; legacy query builders decoded by refdns",
        text="Exploration of the write/parse identity over generated records of every RR type up to and past 64 KiB, frames placed after generated prefixes, and legacy builder arguments; a failing write is a pass (the statement is conditional).", note=WIRE_NOTE),
    "C04": dict(engine="rapidcheck+libFuzzer", technique="differential testing against an independent RFC reference decoder in both directions, plus presentation-format escape round trips",
        text="Exploration: every accepted message's getter dump must equal the reference extraction; every message the reference finds well-formed in the documented subset must be accepted; accepted-but-unextractable is a violation.", note=WIRE_NOTE),
    "C18": dict(engine="rapidcheck+libFuzzer", technique="differential testing of each legacy ares_parse_*_reply function against the record API on the same generated/mutated bytes, capacities 0..7 with canaries",
        text="Exploration: status agreement (malformed iff ares_dns_parse rejects), list equality in answer order field by field, addrttl min(record, CNAME) TTL rule, capacity and canary checks, ledger for complete release. One known finding (SOA no-data status) is excluded by construction and replayed on every run.", note=WIRE_NOTE),
    "C19": dict(
        engine="rapidcheck",
        technique="model-based property testing: rapidcheck-generated operation programs per container compared step by step with std:: reference models (+ exact per-case allocation ledger, ASan/UBSan)",
        text="Exploration: tens of thousands (quick) to millions (thorough) of generated operation sequences per container, every step compared with a trivial reference model, destructor calls and allocations accounted exactly. Not a proof: only sequences up to ~200 operations over the generated argument distribution are explored.",
        note="Trusted: the std:: reference models in harness/dsa_rc.cpp, rapidcheck, clang sanitizers. Fixed hash seed (hook H3) and seeded skip-list levels (hook H2) make runs reproducible; hash-collision-heavy tables are reached only by chance.",
    ),
}
