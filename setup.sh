#!/bin/bash
# MANIFEST.setup_cmd: configure + build the three library variants of /repo (out of
# tree, under /verif/build) and all harness binaries.  Offline; idempotent.
set -e
cd "$(dirname "$0")"
exec python3 ./check --setup
