// Counting allocator installed through the public ares_library_init_mem(): every block the library
// allocates is tracked, so "nothing leaked by this case" is an exact per-case oracle (LSan only speaks at exit).
// Also serves C14: fail the n-th allocation.
#pragma once
#include <cstdint>
#include <cstdlib>
#include <cstring>
#include <atomic>
#include <unistd.h>

extern "C" void __sanitizer_print_stack_trace(void);
namespace vf {
struct Ledger {
  std::atomic<long> live{0};
  std::atomic<long> live_bytes{0};
  std::atomic<uint64_t> total_allocs{0};
  // fault injection: fail allocation number fail_at (1-based, counted from arm()); 0 = never
  uint64_t fail_at = 0;
  uint64_t counter = 0;
  bool armed = false;
  bool fired = false;
  void (*on_fire)() = nullptr;   // called at the instant the chosen allocation is refused
  void arm(uint64_t n) { fail_at = n; counter = 0; armed = true; fired = false; }
  void disarm() { armed = false; fail_at = 0; }
};
inline Ledger &ledger() { static Ledger l; return l; }

struct LHdr { uint64_t magic; uint64_t size; };
static const uint64_t LMAGIC = 0xA11C0DE5A11C0DE5ULL, LFREED = 0xDEADDEADDEADDEADULL;

inline bool ledger_should_fail() {
  Ledger &L = ledger();
  if (!L.armed) return false;
  L.counter++;
  if (L.fail_at && L.counter == L.fail_at) { L.fired = true; if (getenv("VERIF_FAULT_TRACE")) { static const char m[] = "REFUSED ALLOCATION at:\n"; if (write(2, m, sizeof m - 1) < 0) {} __sanitizer_print_stack_trace(); } if (L.on_fire) L.on_fire(); return true; }
  return false;
}
inline void *ledger_malloc(size_t n) {
  if (ledger_should_fail()) return nullptr;
  LHdr *h = (LHdr *)malloc(sizeof(LHdr) + n);
  if (!h) return nullptr;
  h->magic = LMAGIC; h->size = n;
  ledger().live++; ledger().live_bytes += (long)n; ledger().total_allocs++;
  return h + 1;
}
inline void ledger_free(void *p) {
  if (!p) return;
  LHdr *h = (LHdr *)p - 1;
  if (h->magic != LMAGIC) { static const char m[] = "LEDGER: free of foreign or already-freed block\n"; if (write(2, m, sizeof m - 1) < 0) {} abort(); }
  h->magic = LFREED;
  ledger().live--; ledger().live_bytes -= (long)h->size;
  free(h);
}
inline void *ledger_realloc(void *p, size_t n) {
  if (!p) return ledger_malloc(n);
  if (n == 0) { ledger_free(p); return nullptr; }
  if (ledger_should_fail()) return nullptr;
  LHdr *h = (LHdr *)p - 1;
  if (h->magic != LMAGIC) { static const char m[] = "LEDGER: realloc of foreign or freed block\n"; if (write(2, m, sizeof m - 1) < 0) {} abort(); }
  size_t old = (size_t)h->size;
  // always move, so stale pointers into the old block are caught by ASan
  LHdr *nh = (LHdr *)malloc(sizeof(LHdr) + n);
  if (!nh) return nullptr;
  nh->magic = LMAGIC; nh->size = n;
  memcpy(nh + 1, h + 1, old < n ? old : n);
  h->magic = LFREED; free(h);
  ledger().live_bytes += (long)n - (long)old; ledger().total_allocs++;
  return nh + 1;
}
}  // namespace vf
