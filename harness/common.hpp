// Shared by every harness: counters, distinct-case hashing, samples, failure files.
// No RNG, no wall clock in here (wall time is measured by the driver).
#pragma once
#include <cstdarg>
#include <cstdint>
#include <cstdio>
#include <cstdlib>
#include <cstring>
#include <map>
#include <set>
#include <string>
#include <unordered_set>
#include <vector>
#include <fcntl.h>
#include <unistd.h>
#include <signal.h>
#include <sys/time.h>

namespace vf {

inline uint64_t fnv1a(const void *p, size_t n, uint64_t h = 1469598103934665603ULL) {
  const unsigned char *c = (const unsigned char *)p;
  for (size_t i = 0; i < n; i++) { h ^= c[i]; h *= 1099511628211ULL; }
  return h;
}
inline uint64_t fnv1a(const std::string &s) { return fnv1a(s.data(), s.size()); }

inline std::string json_escape(const std::string &s) {
  std::string o;
  for (unsigned char c : s) {
    if (c == '"') o += "\\\"";
    else if (c == '\\') o += "\\\\";
    else if (c == '\n') o += "\\n";
    else if (c == '\t') o += "\\t";
    else if (c < 0x20 || c >= 0x7f) { char b[8]; snprintf(b, sizeof b, "\\u%04x", c); o += b; }
    else o += (char)c;
  }
  return o;
}

inline std::string hex(const unsigned char *p, size_t n) {
  static const char *d = "0123456789abcdef";
  std::string o; o.reserve(n * 2);
  for (size_t i = 0; i < n; i++) { o += d[p[i] >> 4]; o += d[p[i] & 15]; }
  return o;
}
inline std::string hex(const std::vector<unsigned char> &v) { return hex(v.data(), v.size()); }
inline std::string hex(const std::string &v) { return hex((const unsigned char *)v.data(), v.size()); }
inline bool unhex(const std::string &s, std::vector<unsigned char> &out) {
  out.clear();
  auto v = [](char c) -> int { if (c >= '0' && c <= '9') return c - '0'; if (c >= 'a' && c <= 'f') return c - 'a' + 10; if (c >= 'A' && c <= 'F') return c - 'A' + 10; return -1; };
  int hi = -1;
  for (char c : s) { int x = v(c); if (x < 0) { if (c == ' ' || c == '\n' || c == '\r') continue; return false; }
    if (hi < 0) hi = x; else { out.push_back((unsigned char)(hi * 16 + x)); hi = -1; } }
  return hi < 0;
}

struct Stats {
  uint64_t evaluations = 0;
  uint64_t discarded = 0;
  std::map<std::string, uint64_t> counters;
  std::unordered_set<uint64_t> nontrivial;
  size_t nontrivial_cap = 4000000;
  bool nontrivial_capped = false;
  std::vector<std::string> samples;
  size_t max_samples = 5;
  uint64_t sample_every = 997;
  std::string out_path, fail_path, last_path;
  int last_fd = -1;
  uint64_t flush_every = 2000; long last_flush_s = 0;

  Stats() {
    const char *o = getenv("VERIF_OUT");  if (o) out_path = o;
    const char *f = getenv("VERIF_FAIL"); if (f) fail_path = f;
    const char *l = getenv("VERIF_LAST"); if (l) last_path = l;
  }
  void count(const std::string &k, uint64_t n = 1) { counters[k] += n; }
  // Record one executed case; 'nontrivial' per the property's stated rule.
  void record(const std::string &text, bool is_nontrivial) {
    evaluations++;
    if (is_nontrivial) {
      if (nontrivial.size() < nontrivial_cap) nontrivial.insert(fnv1a(text)); else nontrivial_capped = true;
      if (samples.size() < max_samples && (samples.empty() || evaluations % sample_every == 0)) samples.push_back(text.size() > 4000 ? text.substr(0, 4000) + "...[cut]" : text);
    }
    // flush by count for cheap cases and by wall time for expensive ones (a worker stopped at the wall-clock cap must have reported what it did)
    { struct timespec ts; clock_gettime(CLOCK_MONOTONIC, &ts); if (evaluations % flush_every == 0 || ts.tv_sec - last_flush_s >= 5) { last_flush_s = ts.tv_sec; flush(); } }
  }
  // CPU-time watchdog per case (ITIMER_VIRTUAL counts this process's user time only, so machine load cannot trip it).
  static void on_hang(int) { static const char m[] = "\nERROR: VERIF-HANG: case exceeded its CPU-time budget\n"; if (write(2, m, sizeof m - 1) < 0) {} _exit(94); }
  void arm_watchdog() {
    static bool installed = false; static long secs = 0;
    if (!installed) { signal(SIGVTALRM, on_hang); const char *e = getenv("VERIF_CASE_CPU_S"); secs = e && *e ? atol(e) : 10; installed = true; }
    struct itimerval it; memset(&it, 0, sizeof it); it.it_value.tv_sec = secs; setitimer(ITIMER_VIRTUAL, &it, nullptr);
  }
  // Write the case about to run, so the driver holds it if the process dies.
  std::string narrowed;   // set by a harness that ran several sub-cases of one text: the sub-case that failed (stored instead of the whole text)
  void about_to_run(const std::string &text) {
    arm_watchdog();
    if (last_path.empty()) return;
    if (last_fd < 0) last_fd = open(last_path.c_str(), O_WRONLY | O_CREAT | O_TRUNC, 0644);
    if (last_fd < 0) return;
    if (ftruncate(last_fd, 0) != 0) {}
    if (pwrite(last_fd, text.data(), text.size(), 0) < 0) {}
  }
  // Record an oracle failure: signature line, then the case text.
  void fail(const std::string &signature, const std::string &text) {
    count("oracle_failures");
    if (!fail_path.empty()) {
      FILE *f = fopen(fail_path.c_str(), "w");
      if (f) { fprintf(f, "#signature %s\n", signature.c_str()); fwrite(text.data(), 1, text.size(), f); if (text.empty() || text.back() != '\n') fputc('\n', f); fclose(f); }
    }
    flush();
  }
  void flush() {
    if (out_path.empty()) return;
    std::string tmp = out_path + ".tmp";
    FILE *f = fopen(tmp.c_str(), "w");
    if (!f) return;
    fprintf(f, "{\"evaluations\": %llu, \"discarded\": %llu, \"nontrivial_capped\": %s, \"counters\": {", (unsigned long long)evaluations, (unsigned long long)discarded, nontrivial_capped ? "true" : "false");
    bool first = true;
    for (auto &kv : counters) { fprintf(f, "%s\"%s\": %llu", first ? "" : ", ", json_escape(kv.first).c_str(), (unsigned long long)kv.second); first = false; }
    fprintf(f, "}, \"samples\": [");
    first = true;
    for (auto &s : samples) { fprintf(f, "%s\"%s\"", first ? "" : ", ", json_escape(s).c_str()); first = false; }
    fprintf(f, "]}\n");
    fclose(f);
    // distinct non-trivial hashes, merged by the driver across workers
    std::string hp = out_path + ".hashes";
    FILE *h = fopen((hp + ".tmp").c_str(), "wb");
    if (h) { for (uint64_t v : nontrivial) fwrite(&v, 8, 1, h); fclose(h); rename((hp + ".tmp").c_str(), hp.c_str()); }
    rename(tmp.c_str(), out_path.c_str());
  }
};

inline Stats &stats() { static Stats *s = new Stats; return *s; }   // never destroyed: flushed from atexit handlers

inline void msg(const char *fmt, ...) __attribute__((format(printf, 1, 2)));
inline void msg(const char *fmt, ...) {
  char b[4096]; va_list ap; va_start(ap, fmt); int n = vsnprintf(b, sizeof b, fmt, ap); va_end(ap);
  if (n > (int)sizeof b - 1) n = sizeof b - 1;
  if (n > 0) { if (write(2, b, (size_t)n) < 0) {} }
}

inline long env_long(const char *k, long def) { const char *v = getenv(k); return v && *v ? atol(v) : def; }

inline bool read_file(const std::string &p, std::string &out) {
  FILE *f = fopen(p.c_str(), "rb"); if (!f) return false;
  char b[65536]; size_t n; out.clear();
  while ((n = fread(b, 1, sizeof b, f)) > 0) out.append(b, n);
  fclose(f); return true;
}

}  // namespace vf
