/* Gives the C15 harness access to the two static line parsers (nsswitch.conf and netsvc.conf / svc.conf), whose
 * file paths are hard-wired to /etc and therefore cannot be redirected through the public API.  The library source file
 * is included as is; because this object then defines every external symbol of that file, the linker never pulls the
 * archive member of the same file, so there is exactly one copy of the code under test in the binary. */
#include VERIF_SYSCONFIG_FILES_C

ares_status_t vf_parse_nsswitch_line(const ares_channel_t *channel, ares_sysconfig_t *sysconfig, ares_buf_t *line)
{
  return parse_nsswitch_line(channel, sysconfig, line);
}

ares_status_t vf_parse_svcconf_line(const ares_channel_t *channel, ares_sysconfig_t *sysconfig, ares_buf_t *line)
{
  return parse_svcconf_line(channel, sysconfig, line);
}
