// libFuzzer front end of the simulator: bytes -> scenario (same decoder as rapidcheck) -> run -> monitors.
#include "sim_scn.hpp"
#include "sim_gen.hpp"
using namespace vf;
static std::string g_prop = "C01";
extern "C" int LLVMFuzzerInitialize(int *, char ***) {
  ares_library_init_mem(ARES_LIB_INIT_ALL, ledger_malloc, ledger_free, ledger_realloc);
  if (getenv("SIM_PROP")) g_prop = getenv("SIM_PROP");
  atexit([] { stats().flush(); });
  return 0;
}
extern "C" int LLVMFuzzerTestOneInput(const uint8_t *data, size_t size) {
  std::string text = "prop " + g_prop + "\n" + sim::gen_scenario(data, size, g_prop);
  Stats &st = stats(); st.about_to_run(text); st.narrowed.clear();
  sim::RunResult r = sim::run_prop(text, g_prop);     // fresh world, clock, RNG and ledger baseline per iteration
  for (auto &kv : r.counters) st.count(kv.first, kv.second);
  st.record(text, r.nontrivial);
  if (!r.v.ok) { msg("DETAIL %s\nFAIL %s\n", r.v.detail.substr(0, 1500).c_str(), r.v.sig.c_str()); st.fail(r.v.sig, st.narrowed.empty() ? text : st.narrowed); __builtin_trap(); }
  return 0;
}
