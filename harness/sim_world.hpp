// Simulator part 1: virtual clock, seeded RNG, virtual sockets (through the public ares_set_socket_functions_ex),
// virtual DNS servers that decode with refdns and answer from a hash of (seed, server, question, n-th transmission).
// Single-threaded; a case depends on nothing but the scenario text.  DESIGN.md section 3.
#pragma once
#include "cares_internal.hpp"
#include "common.hpp"
#include "ledger.hpp"
#include "refdns.hpp"
#include <algorithm>
#include <cerrno>
#include <deque>
#include <map>
#include <set>
#include <sstream>

namespace sim {
typedef std::string Bytes;

struct Addr {
  int family = AF_INET; unsigned char b[16] = {0}; uint16_t port = 53;
  bool operator==(const Addr &o) const { return family == o.family && memcmp(b, o.b, family == AF_INET ? 4 : 16) == 0; }
  std::string ip() const { char buf[64]; inet_ntop(family, b, buf, sizeof buf); return buf; }
  std::string str() const { return family == AF_INET ? ip() + ":" + std::to_string(port) : "[" + ip() + "]:" + std::to_string(port); }
  static bool parse(const std::string &s, Addr &a) {   // "1.2.3.4", "1.2.3.4:5353", "[fd00::1]:53", "fd00::1"
    std::string host = s; a.port = 53;
    if (!s.empty() && s[0] == '[') { size_t e = s.find(']'); if (e == std::string::npos) return false; host = s.substr(1, e - 1); if (e + 2 <= s.size() && s[e + 1] == ':') a.port = (uint16_t)atoi(s.c_str() + e + 2); }
    else if (std::count(s.begin(), s.end(), ':') == 1) { size_t c = s.find(':'); host = s.substr(0, c); a.port = (uint16_t)atoi(s.c_str() + c + 1); }
    if (inet_pton(AF_INET, host.c_str(), a.b) == 1) { a.family = AF_INET; return true; }
    if (inet_pton(AF_INET6, host.c_str(), a.b) == 1) { a.family = AF_INET6; return true; }
    return false;
  }
  void to_sockaddr(struct sockaddr_storage *ss, ares_socklen_t *len) const {
    memset(ss, 0, sizeof *ss);
    if (family == AF_INET) { struct sockaddr_in *s = (struct sockaddr_in *)ss; s->sin_family = AF_INET; s->sin_port = htons(port); memcpy(&s->sin_addr, b, 4); *len = sizeof *s; }
    else { struct sockaddr_in6 *s = (struct sockaddr_in6 *)ss; s->sin6_family = AF_INET6; s->sin6_port = htons(port); memcpy(&s->sin6_addr, b, 16); *len = sizeof *s; }
  }
  static Addr from_sockaddr(const struct sockaddr *sa) {
    Addr a; if (sa->sa_family == AF_INET) { const struct sockaddr_in *s = (const struct sockaddr_in *)sa; a.family = AF_INET; a.port = ntohs(s->sin_port); memcpy(a.b, &s->sin_addr, 4); }
    else { const struct sockaddr_in6 *s = (const struct sockaddr_in6 *)sa; a.family = AF_INET6; a.port = ntohs(s->sin6_port); memcpy(a.b, &s->sin6_addr, 16); }
    return a;
  }
};

struct Dgram { Bytes data; Addr from; int64_t at = 0; uint32_t serial = 0; };

struct VSock {
  int fd = -1; int family = AF_INET; bool tcp = false; bool open = false; bool connected = false; bool connecting = false; bool tfo = false;
  int server = -1; Addr remote; Addr local;
  std::deque<Dgram> inq;           // UDP datagrams waiting (deliverable when now >= at)
  std::deque<std::pair<int64_t, Bytes>> inseg; bool eof = false, reset = false;   // TCP server->client bytes: (deliverable-at, bytes), in stream order
  size_t avail(int64_t now) const { size_t n = 0; for (auto &sg : inseg) { if (sg.first > now) break; n += sg.second.size(); } return n; }
  size_t queued() const { size_t n = 0; for (auto &sg : inseg) n += sg.second.size(); return n; }
  Bytes outstream;                 // TCP client->server bytes not yet framed by the server
  size_t udp_queries = 0;          // whole datagrams written on this UDP socket
  int64_t opened_at = 0; size_t closes = 0;
  // what the library last asked the application to watch (socket-state callback stream)
  bool want_read = false, want_write = false, announced = false; size_t final_notifications = 0;
};

enum Outcome { O_ANSWER, O_NXDOMAIN, O_NXDOMAIN_SOA, O_NODATA, O_NODATA_SOA, O_SERVFAIL, O_REFUSED, O_NOTIMP, O_FORMERR, O_FORMERR_OPT, O_TC, O_SILENCE, O_GARBAGE, O_EMPTY, O_DUP, O_DELAY, O_RESET, O_EOFMID, O_BADCOOKIE, O__COUNT };
static const char *kOutcomeNames[] = {"answer", "nxdomain", "nxdomain_soa", "nodata", "nodata_soa", "servfail", "refused", "notimp", "formerr", "formerr_opt", "tc", "silence", "garbage", "empty", "dup", "delay", "reset", "eofmid", "badcookie"};
inline int outcome_from_name(const std::string &s) { for (int i = 0; i < O__COUNT; i++) if (s == kOutcomeNames[i]) return i; return -1; }

// One transmission seen by a virtual server
struct Tx {
  int64_t t = 0; int fd = -1; int server = -1; bool tcp = false; bool decodable = false;
  uint16_t qid = 0; ref::Name qname; std::string qname_lower; uint16_t qtype = 0, qclass = 0; bool rd = false; bool edns = false; uint16_t udp_size = 0;
  bool has_cookie = false; Bytes cookie;    // COOKIE option payload as sent
  int req = -1;                              // request the question name belongs to (first label r<N>), -1 unknown
  size_t nth = 0;                            // n-th transmission of this question to this server
  int outcome = -1; uint32_t serial = 0; Bytes raw;
  size_t seq = 0; uint64_t ev = 0;   // position in the global order of observed events
};

// Everything that was ever put on a wire towards the client, by whom
struct Prov {
  uint32_t serial = 0; bool genuine = true; std::string forgery;   // "" | wrongid | wrongname | ...
  int server = -1; int fd = -1; uint16_t qid = 0; std::string qname_lower; Bytes qname_exact; uint16_t qtype = 0; int64_t t = 0; size_t tx = (size_t)-1;
  int rcode = 0; bool tc = false; uint32_t min_ttl = 0; std::vector<uint32_t> ttls; bool has_soa = false; uint32_t soa_ttl = 0, soa_min = 0;
  std::vector<std::pair<int, Bytes>> addrs;    // (family, address) of A/AAAA records in the answer
  std::vector<uint32_t> addr_ttls;
  std::vector<std::pair<std::string, uint32_t>> cnames;   // (owner lower, ttl)
  std::vector<std::string> ptr_names;
  bool cookie_valid = true; bool carried_server_cookie = false; int outcome = -1; size_t txs_at_injection = 0;
  Bytes server_cookie_sent; Bytes client_cookie_echoed;   // COOKIE option content of this reply (if any)
  int on_current_conn = -1;   // forged packets: was the targeted query assigned to the receiving socket when the bytes were read (-1 not evaluated)
};

struct SockCall { int64_t t; std::string call; int fd; long rv; int err; size_t len; uint64_t ev = 0; };

struct Rule { int server = -1; std::string name; long nth = -1; int outcome = O_ANSWER; };   // -1 / "*" = any

struct ServerCfg {
  Addr addr; Addr source;              // source address the client's sockets towards this server get (agetsockname)
  std::map<std::string, size_t> seen;  // question key -> transmissions so far
  // cookie behaviour (C17)
  std::string cookie_mode = "none";    // none | valid | changing | wrongclient | short
  Bytes server_cookie = Bytes("SRVCOOK1"); uint32_t cookie_gen = 0;
};

struct World;
inline World *&W() { static World *w = nullptr; return w; }

struct World {
  // ---- clock and rng
  int64_t now_us = 1000000LL * 1000 + 1;     // virtual microseconds; starts at a non-zero second and usec
  uint64_t rng = 88172645463325252ULL; uint64_t seed = 1;
  void set_seed(uint64_t s) { seed = s; rng = s * 0x9E3779B97F4A7C15ULL + 0xD1B54A32D192ED03ULL; if (!rng) rng = 1; }
  unsigned char rand_byte() { rng ^= rng << 13; rng ^= rng >> 7; rng ^= rng << 17; return (unsigned char)(rng >> 29); }
  static void cb_tvnow(ares_timeval_t *tv) { tv->sec = W()->now_us / 1000000; tv->usec = (unsigned int)(W()->now_us % 1000000); }
  static void cb_rand(unsigned char *buf, size_t len) { for (size_t i = 0; i < len; i++) buf[i] = W()->rand_byte(); }
  uint64_t hash(const std::string &s) const { return vf::fnv1a(s.data(), s.size(), seed * 1099511628211ULL + 1469598103934665603ULL); }

  // ---- ground truth for "the connection the query is currently assigned to": read from the library's own index at the moment
  //      the bytes are handed over (the monitor checks the acceptance filter, not this bookkeeping)
  ares_channel_t *chan = nullptr;
  void note_assignment(int fd) {
    if (!chan) return;
    for (auto &p : provs) if (!p.genuine && p.fd == fd && p.on_current_conn < 0 && (p.forgery == "late" || p.forgery == "wrongsock")) {
      ares_query_t *q = (ares_query_t *)ares_htable_szvp_get_direct(chan->queries_by_qid, p.qid);
      p.on_current_conn = (q && q->conn && q->conn->fd == fd) ? 1 : 0;
    }
  }

  // ---- sockets
  std::vector<VSock> socks; int next_fd = 100;
  std::vector<SockCall> calls;
  std::vector<std::string> proto_violations;   // C10: calls on closed / unknown descriptors, double close
  std::map<std::string, std::map<size_t, int>> faults;   // call kind -> (n-th invocation, errno)
  std::map<std::string, size_t> call_count;
  std::vector<size_t> chop, partial; size_t chop_i = 0, partial_i = 0;   // TCP read chunk sizes / write acceptance sizes (0 = would block)
  bool nonblocking = true; bool tfo_supported = false; bool sockstate_cb = true;
  bool in_library = false;
  VSock *sock(int fd) { for (auto &s : socks) if (s.fd == fd) return &s; return nullptr; }
  void log(const std::string &c, int fd, long rv, int err, size_t len = 0) { calls.push_back({now_us, c, fd, rv, err, len, ++evseq}); }
  int fault(const std::string &kind) { size_t n = ++call_count[kind]; auto it = faults.find(kind); if (it == faults.end()) return 0; auto jt = it->second.find(n); return jt == it->second.end() ? 0 : jt->second; }

  // ---- servers, traffic, provenance
  std::vector<ServerCfg> servers;
  std::vector<Tx> txs; std::vector<Prov> provs; uint32_t next_serial = 1; uint64_t evseq = 0;
  std::vector<Rule> rules; std::vector<int> weights = std::vector<int>(O__COUNT, 0);
  int default_ttl_mode = 0;
  ref::Name unknown;
  bool answer_mixed_families = false;    // put an AAAA next to A answers (and vice versa)
  bool suppress_empty = false;           // C20 twin: do not send the zero-length datagram of the 'empty' outcome
  int cname_depth_mod = 3; bool answer_with_soa = false;

  World() { weights[O_ANSWER] = 1; }

  int server_for(const Addr &a) const { for (size_t i = 0; i < servers.size(); i++) if (servers[i].addr == a && servers[i].addr.port == a.port) return (int)i; for (size_t i = 0; i < servers.size(); i++) if (servers[i].addr == a) return (int)i; return -1; }

  static int req_of_name(const ref::Name &n) {
    if (n.labels.empty()) return -1;
    const Bytes &l = n.labels[0];
    if (l.size() >= 2 && (l[0] == 'r' || l[0] == 'R')) { bool dig = true; for (size_t i = 1; i < l.size(); i++) if (l[i] < '0' || l[i] > '9') dig = false; if (dig) return atoi(l.c_str() + 1); }
    // reverse names: d.c.77.10.in-addr.arpa -> request c*256+d ; ip6: ...7.7 marker
    if (n.labels.size() == 6 && ref::lower(n.labels[4]) == "in-addr" && n.labels[3] == "172" && n.labels[2] == "16") return atoi(n.labels[1].c_str()) * 256 + atoi(n.labels[0].c_str());
    if (n.labels.size() == 34 && ref::lower(n.labels[32]) == "ip6") { int v = 0; for (int i = 3; i >= 0; i--) { char c = n.labels[(size_t)i][0]; v = v * 16 + (c >= 'a' ? c - 'a' + 10 : (c >= 'A' ? c - 'A' + 10 : c - '0')); } return v; }
    return -1;
  }

  int pick_outcome(int server, const Tx &tx) {
    for (auto it = rules.rbegin(); it != rules.rend(); ++it) {
      if (it->server >= 0 && it->server != server) continue;
      if (it->nth >= 0 && (size_t)it->nth != tx.nth) continue;
      if (it->name != "*" && !(tx.qname.labels.size() && ref::lower(tx.qname.labels[0]) == it->name) && tx.qname_lower != it->name) continue;
      return it->outcome;
    }
    int total = 0; for (int w : weights) total += w;
    if (total <= 0) return O_ANSWER;
    uint64_t h = hash("o|" + std::to_string(server) + "|" + tx.qname_lower + "|" + std::to_string(tx.qtype) + "|" + std::to_string(tx.nth));
    int r = (int)(h % (uint64_t)total);
    for (int i = 0; i < O__COUNT; i++) { if (r < weights[i]) return i; r -= weights[i]; }
    return O_ANSWER;
  }

  // Build a reply for tx with the given outcome; registers provenance.  Returns the wire bytes (may be empty).
  Bytes build_reply(const Tx &tx, int outcome, Prov &pv, bool forged = false, const std::string &forgery = "") {
    ref::Msg m; m.id = tx.qid; m.qr = true; m.rd = tx.rd; m.ra = true;
    ref::Question q; q.name = tx.qname; q.type = tx.qtype; q.klass = tx.qclass; m.qd.push_back(q);
    pv.serial = next_serial++; pv.genuine = !forged; pv.forgery = forgery; pv.server = tx.server; pv.fd = tx.fd; pv.qid = tx.qid; pv.qname_lower = tx.qname_lower; pv.qtype = tx.qtype; pv.t = now_us; pv.outcome = outcome;
    uint64_t h = hash("r|" + tx.qname_lower + "|" + std::to_string(tx.qtype) + "|" + std::to_string(tx.server) + "|" + std::to_string(tx.nth));
    auto ttl_of = [&](unsigned i) -> uint32_t { uint64_t x = hash("t|" + std::to_string(h) + "|" + std::to_string(i)); static const uint32_t tt[] = {0, 1, 2, 5, 30, 60, 100, 300, 3600, 86400, 7, 3}; return tt[x % 12]; };
    bool opt = tx.edns;
    auto soa = [&](uint32_t ttl, uint32_t minimum) { ref::RR rr; rr.owner = ref::mkname({"test"}); rr.type = ref::T_SOA; rr.klass = 1; rr.ttl = ttl; rr.decoded = true; ref::Field a; a.kind = ref::F_NAME; a.name = ref::mkname({"ns", "test"}); rr.fields.push_back(a); a.name = ref::mkname({"root", "test"}); rr.fields.push_back(a); uint32_t vals[5] = {pv.serial, 3600, 600, 86400, minimum}; for (int i = 0; i < 5; i++) { ref::Field f; f.kind = ref::F_U32; f.num = vals[i]; rr.fields.push_back(f); } m.sec[1].push_back(rr); pv.has_soa = true; pv.soa_ttl = ttl; pv.soa_min = minimum; };
    switch (outcome) {
      case O_NXDOMAIN: m.rcode4 = 3; break;
      case O_NXDOMAIN_SOA: m.rcode4 = 3; soa(ttl_of(90), ttl_of(91)); break;
      case O_NODATA: break;
      case O_NODATA_SOA: soa(ttl_of(90), ttl_of(91)); break;
      case O_SERVFAIL: m.rcode4 = 2; break;
      case O_REFUSED: m.rcode4 = 5; break;
      case O_NOTIMP: m.rcode4 = 4; break;
      case O_FORMERR: m.rcode4 = 1; opt = false; break;
      case O_FORMERR_OPT: m.rcode4 = 1; break;
      case O_TC: m.tc = true; break;
      case O_BADCOOKIE: m.rcode4 = 23 & 0xf; break;   // ext part goes into OPT below
      default: {  // answers (also dup, delay, empty+answer over TCP)
        ref::Name owner = tx.qname;
        if (tx.qtype == ref::T_A || tx.qtype == ref::T_AAAA) {
          unsigned ncn = (unsigned)(h % (uint64_t)cname_depth_mod == 0 ? 1 + (h >> 8) % 3 : 0);
          for (unsigned i = 0; i < ncn; i++) { ref::RR rr; rr.owner = owner; rr.type = ref::T_CNAME; rr.klass = 1; rr.ttl = ttl_of(10 + i); rr.decoded = true; ref::Field f; f.kind = ref::F_NAME; f.name = ref::mkname({("c" + std::to_string(i) + "x" + std::to_string(pv.serial)).c_str(), "alias", "test"}); rr.fields.push_back(f); m.sec[0].push_back(rr); pv.cnames.push_back({ref::lower(ref::escape_name(owner)), rr.ttl}); pv.ttls.push_back(rr.ttl); owner = f.name; }
          unsigned n = 1 + (unsigned)((h >> 16) % 4); if ((h >> 24) % 13 == 0) n = 20 + (unsigned)((h >> 32) % 20);
          for (unsigned i = 0; i < n; i++) {
            bool v6 = tx.qtype == ref::T_AAAA; if (answer_mixed_families && i % 3 == 2) v6 = !v6;
            ref::RR rr; rr.owner = owner; rr.type = v6 ? ref::T_AAAA : ref::T_A; rr.klass = 1; rr.ttl = ttl_of(20 + i); rr.decoded = true; ref::Field f;
            if (!v6) { f.kind = ref::F_ADDR4; f.bin = Bytes{(char)10, (char)((pv.serial >> 8) & 0xff), (char)(pv.serial & 0xff), (char)(i + 1)}; }
            else { f.kind = ref::F_ADDR6; f.bin = Bytes(16, '\0'); f.bin[0] = (char)0xfd; f.bin[12] = (char)((pv.serial >> 8) & 0xff); f.bin[13] = (char)(pv.serial & 0xff); f.bin[15] = (char)(i + 1); }
            rr.fields.push_back(f); m.sec[0].push_back(rr); pv.addrs.push_back({v6 ? AF_INET6 : AF_INET, f.bin}); pv.addr_ttls.push_back(rr.ttl); pv.ttls.push_back(rr.ttl);
          }
        } else if (tx.qtype == ref::T_PTR) {
          unsigned n = 1 + (unsigned)((h >> 16) % 3);
          for (unsigned i = 0; i < n; i++) { ref::RR rr; rr.owner = owner; rr.type = ref::T_PTR; rr.klass = 1; rr.ttl = ttl_of(20 + i); rr.decoded = true; ref::Field f; f.kind = ref::F_NAME; f.name = ref::mkname({("h" + std::to_string(pv.serial) + "n" + std::to_string(i)).c_str(), "ptr", "test"}); rr.fields.push_back(f); m.sec[0].push_back(rr); pv.ttls.push_back(rr.ttl); pv.ptr_names.push_back(ref::escape_name(f.name)); }
        } else {
          ref::RR rr; rr.owner = owner; rr.type = ref::T_TXT; rr.klass = 1; rr.ttl = ttl_of(20); rr.decoded = true; ref::Field f; f.kind = ref::F_ABIN; f.abin.push_back("serial=" + std::to_string(pv.serial)); rr.fields.push_back(f); m.sec[0].push_back(rr); pv.ttls.push_back(rr.ttl);
        }
        // a positive answer may carry an authority SOA as well, with a TTL below the answer's (opt asoa=1): its TTL is visible through the APIs like any other
        if (answer_with_soa && (h >> 20) % 2 == 0) soa(ttl_of(92) % 8, ttl_of(91));
      }
    }
    if (opt) {
      ref::RR o; o.type = ref::T_OPT; o.decoded = true; o.klass = 1232; o.ttl = (outcome == O_BADCOOKIE) ? ((uint32_t)(23 >> 4) << 24) : 0;
      ref::Field f; f.kind = ref::F_U16; f.num = 1232; o.fields.push_back(f); f.kind = ref::F_U8; f.num = 0; o.fields.push_back(f); f.kind = ref::F_U16; f.num = 0; o.fields.push_back(f);
      ref::Field opts; opts.kind = ref::F_OPTS;
      // cookie behaviour of this server
      if (tx.has_cookie && tx.server >= 0 && !tx.tcp) {
        ServerCfg &sc = servers[(size_t)tx.server]; Bytes client = tx.cookie.substr(0, 8);
        if (sc.cookie_mode == "valid" || outcome == O_BADCOOKIE) { opts.opts.push_back({10, client + sc.server_cookie}); pv.carried_server_cookie = true; pv.server_cookie_sent = sc.server_cookie; pv.client_cookie_echoed = client; }
        else if (sc.cookie_mode == "changing") { sc.cookie_gen++; Bytes sc2 = sc.server_cookie; sc2[7] = (char)('0' + sc.cookie_gen % 10); opts.opts.push_back({10, client + sc2}); pv.carried_server_cookie = true; pv.server_cookie_sent = sc2; pv.client_cookie_echoed = client; }
        else if (sc.cookie_mode == "wrongclient") { Bytes c2 = client; c2[0] = (char)(c2[0] ^ 0x55); opts.opts.push_back({10, c2 + sc.server_cookie}); pv.cookie_valid = false; }
        else if (sc.cookie_mode == "short") opts.opts.push_back({10, client});
      }
      o.fields.push_back(opts); m.sec[2].push_back(o);
    }
    pv.rcode = m.rcode4 | ((outcome == O_BADCOOKIE) ? 16 : 0); pv.tc = m.tc;
    pv.min_ttl = 0xffffffffu; for (auto t : pv.ttls) pv.min_ttl = std::min(pv.min_ttl, t);
    ref::Encoder e; e.opt.mode = 1;
    return e.message(m);
  }

  // The server at index s received one whole DNS message on socket vs.
  void server_receive(VSock &vs, const Bytes &raw) {
    Tx tx; tx.t = now_us; tx.fd = vs.fd; tx.server = vs.server; tx.tcp = vs.tcp; tx.raw = raw; tx.seq = txs.size(); tx.ev = ++evseq;
    ref::Msg m; ref::Verdict v = ref::decode((const unsigned char *)raw.data(), raw.size(), m);
    if (v.lenient_ok && m.qd.size() == 1) {
      tx.decodable = true; tx.qid = m.id; tx.qname = m.qd[0].name; tx.qname_lower = ref::lower(ref::escape_name(m.qd[0].name)); tx.qtype = m.qd[0].type; tx.qclass = m.qd[0].klass; tx.rd = m.rd;
      for (auto &rr : m.sec[2]) if (rr.type == ref::T_OPT) { tx.edns = true; tx.udp_size = rr.klass; for (auto &o : rr.fields.back().opts) if (o.first == 10) { tx.has_cookie = true; tx.cookie = o.second; } }
      tx.req = req_of_name(tx.qname);
    }
    if (vs.server < 0 || !tx.decodable) { txs.push_back(tx); return; }
    ServerCfg &sc = servers[(size_t)vs.server];
    std::string key = tx.qname_lower + "|" + std::to_string(tx.qtype);
    tx.nth = sc.seen[key]++;
    int oc = pick_outcome(vs.server, tx);
    if (vs.tcp && (oc == O_TC || oc == O_EMPTY)) oc = O_ANSWER;
    if (!vs.tcp && (oc == O_RESET || oc == O_EOFMID)) oc = O_SILENCE;
    if (oc == O_BADCOOKIE && (!tx.has_cookie || vs.tcp || (sc.cookie_mode != "valid" && sc.cookie_mode != "changing"))) oc = O_ANSWER;   // only a cookie-capable server says BADCOOKIE
    tx.outcome = oc;
    if (oc == O_SILENCE) { txs.push_back(tx); return; }
    if (oc == O_RESET) { vs.reset = true; txs.push_back(tx); return; }
    Prov pv; Bytes reply;
    if (oc == O_GARBAGE) { pv.serial = next_serial++; pv.genuine = false; pv.forgery = "garbage"; pv.server = vs.server; pv.fd = vs.fd; pv.t = now_us; uint64_t h = hash("g|" + key + std::to_string(tx.nth)); for (int i = 0; i < 5 + (int)(h % 40); i++) reply += (char)(hash(std::to_string(h) + std::to_string(i)) & 0xff); }
    else reply = build_reply(tx, oc, pv);
    pv.tx = tx.seq; tx.serial = pv.serial; provs.push_back(pv); txs.push_back(tx);
    int64_t delay = 0; if (oc == O_DELAY) { uint64_t h = hash("d|" + key + std::to_string(tx.nth)); static const int64_t dd[] = {1000, 50000, 200000, 900000, 2500000, 6000000}; delay = dd[h % 6]; }
    deliver(vs, reply, servers[(size_t)vs.server].addr, delay, pv.serial, oc);
    if (oc == O_DUP) deliver(vs, reply, servers[(size_t)vs.server].addr, 0, pv.serial, oc);
  }

  void deliver(VSock &vs, const Bytes &reply, const Addr &from, int64_t delay, uint32_t serial, int oc = O_ANSWER) {
    if (vs.tcp && (vs.eof || vs.reset)) return;   // the server side of this stream is gone: nothing more can arrive on it
    if (!vs.tcp) {
      if (oc == O_EMPTY && !suppress_empty) { Dgram z; z.from = from; z.at = now_us; vs.inq.push_back(z); }
      Dgram d; d.data = reply; d.from = from; d.at = now_us + delay; d.serial = serial; vs.inq.push_back(d);
    } else {
      Bytes framed; framed += (char)((reply.size() >> 8) & 0xff); framed += (char)(reply.size() & 0xff); framed += reply;
      if (oc == O_EOFMID) { framed.resize(framed.size() / 2 + 1); vs.eof = true; }
      int64_t at = now_us + delay; if (!vs.inseg.empty()) at = std::max(at, vs.inseg.back().first);   // bytes cannot overtake earlier bytes of the stream
      vs.inseg.push_back({at, framed});
      stream_bytes += framed.size();
    }
  }

  // ---- socket callbacks
  static ares_socket_t s_socket(int domain, int type, int, void *) {
    World &w = *W(); int e = w.fault("asocket");
    if (e) { w.log("asocket", -1, -1, e); errno = e; return ARES_SOCKET_BAD; }
    VSock s; s.fd = w.next_fd++; s.family = domain; s.tcp = type == SOCK_STREAM; s.open = true; s.opened_at = w.now_us;
    w.socks.push_back(s); w.log("asocket", s.fd, s.fd, 0); return s.fd;
  }
  VSock *checked(const char *call, int fd) {
    VSock *s = sock(fd);
    if (!s) { proto_violations.push_back(std::string(call) + " on a descriptor never returned by asocket: " + std::to_string(fd)); return nullptr; }
    if (!s->open) { proto_violations.push_back(std::string(call) + " on closed descriptor " + std::to_string(fd)); return nullptr; }
    return s;
  }
  static int s_close(ares_socket_t fd, void *) {
    World &w = *W(); VSock *s = w.sock(fd);
    if (!s) { w.proto_violations.push_back("aclose on a descriptor never returned by asocket: " + std::to_string(fd)); w.log("aclose", fd, -1, EBADF); errno = EBADF; return -1; }
    s->closes++;
    if (!s->open) { w.proto_violations.push_back("aclose twice on descriptor " + std::to_string(fd)); w.log("aclose", fd, -1, EBADF); errno = EBADF; return -1; }
    s->open = false; w.log("aclose", fd, 0, 0); return 0;
  }
  static int s_setsockopt(ares_socket_t fd, ares_socket_opt_t opt, const void *, ares_socklen_t, void *) {
    World &w = *W(); VSock *s = w.checked("asetsockopt", fd); if (!s) { errno = EBADF; return -1; }
    if (opt == ARES_SOCKET_OPT_TCP_FASTOPEN) { if (!w.tfo_supported) { w.log("asetsockopt", fd, -1, ENOSYS); errno = ENOSYS; return -1; } s->tfo = true; }
    int e = w.fault("asetsockopt"); if (e) { w.log("asetsockopt", fd, -1, e); errno = e; return -1; }
    w.log("asetsockopt", fd, 0, 0); return 0;
  }
  static int s_connect(ares_socket_t fd, const struct sockaddr *sa, ares_socklen_t, unsigned int flags, void *) {
    World &w = *W(); VSock *s = w.checked("aconnect", fd); if (!s) { errno = EBADF; return -1; }
    int e = w.fault("aconnect"); if (e) { w.log("aconnect", fd, -1, e); errno = e; return -1; }
    s->remote = Addr::from_sockaddr(sa); s->server = w.server_for(s->remote);
    if (s->server >= 0) { s->local = w.servers[(size_t)s->server].source; s->local.port = (uint16_t)(40000 + fd); }
    if (!s->tcp) { s->connected = true; w.log("aconnect", fd, 0, 0); return 0; }
    if ((flags & ARES_SOCKET_CONN_TCP_FASTOPEN) && s->tfo) { s->connecting = true; w.log("aconnect", fd, 0, 0); return 0; }
    s->connecting = true; w.log("aconnect", fd, -1, EINPROGRESS); errno = EINPROGRESS; return -1;
  }
  static ares_ssize_t s_recvfrom(ares_socket_t fd, void *buf, size_t len, int, struct sockaddr *from, ares_socklen_t *fromlen, void *) {
    World &w = *W(); VSock *s = w.checked("arecvfrom", fd); if (!s) { errno = EBADF; return -1; }
    int e = w.fault("arecvfrom"); if (e) { w.log("arecvfrom", fd, -1, e); errno = e; return -1; }
    w.note_assignment(fd);
    if (!s->tcp) {
      for (size_t i = 0; i < s->inq.size(); i++) if (s->inq[i].at <= w.now_us) {
        Dgram d = s->inq[i]; s->inq.erase(s->inq.begin() + (long)i);
        size_t n = std::min(len, d.data.size()); memcpy(buf, d.data.data(), n);
        if (from && fromlen) { struct sockaddr_storage ss; ares_socklen_t sl; d.from.to_sockaddr(&ss, &sl); if (*fromlen >= sl) { memcpy(from, &ss, sl); *fromlen = sl; } }
        w.delivered.push_back({w.now_us, fd, d.serial, n, ++w.evseq}); w.log("arecvfrom", fd, (long)n, 0, n); return (ares_ssize_t)n;
      }
      w.log("arecvfrom", fd, -1, EWOULDBLOCK); errno = EWOULDBLOCK; return -1;
    }
    size_t av = s->avail(w.now_us);
    if (av > 0) {
      size_t chunk = len; if (!w.chop.empty()) { chunk = w.chop[w.chop_i++ % w.chop.size()]; if (chunk == 0) chunk = 1; }
      size_t n = std::min(std::min(len, chunk), av), got = 0;
      while (got < n) { Bytes &front = s->inseg.front().second; size_t take = std::min(n - got, front.size()); memcpy((char *)buf + got, front.data(), take); front.erase(0, take); got += take; if (front.empty()) s->inseg.pop_front(); }
      if (n < av) w.split_reads++;
      w.log("arecvfrom", fd, (long)n, 0, n); return (ares_ssize_t)n;
    }
    if (s->queued() > 0) { w.log("arecvfrom", fd, -1, EWOULDBLOCK); errno = EWOULDBLOCK; return -1; }   // later bytes still in flight
    if (s->reset) { w.log("arecvfrom", fd, -1, ECONNRESET); errno = ECONNRESET; return -1; }
    if (s->eof) { w.log("arecvfrom", fd, 0, 0); return 0; }
    w.log("arecvfrom", fd, -1, EWOULDBLOCK); errno = EWOULDBLOCK; return -1;
  }
  static ares_ssize_t s_sendto(ares_socket_t fd, const void *buf, size_t len, int, const struct sockaddr *to, ares_socklen_t, void *) {
    World &w = *W(); VSock *s = w.checked("asendto", fd); if (!s) { errno = EBADF; return -1; }
    int e = w.fault("asendto"); if (e) { w.log("asendto", fd, -1, e); errno = e; return -1; }
    if (s->reset) { w.log("asendto", fd, -1, ECONNRESET); errno = ECONNRESET; return -1; }
    if (!s->tcp) {
      if (!s->connected) { w.log("asendto", fd, -1, ENOTCONN); errno = ENOTCONN; return -1; }
      s->udp_queries++; w.log("asendto", fd, (long)len, 0, len);
      w.server_receive(*s, Bytes((const char *)buf, len)); return (ares_ssize_t)len;
    }
    if (to && s->connecting) { s->connected = true; s->connecting = false; }   // TCP fast open: first write carries the address
    if (!s->connected) { w.log("asendto", fd, -1, EWOULDBLOCK); errno = EWOULDBLOCK; return -1; }
    size_t accept = len; if (!w.partial.empty()) { accept = w.partial[w.partial_i++ % w.partial.size()]; }
    if (accept == 0) { w.log("asendto", fd, -1, EWOULDBLOCK); errno = EWOULDBLOCK; w.blocked_writes++; return -1; }
    size_t n = std::min(len, accept); if (n < len) w.short_writes++;
    s->outstream.append((const char *)buf, n); w.log("asendto", fd, (long)n, 0, n);
    // frame whatever is complete
    while (s->outstream.size() >= 2) { size_t fl = ((unsigned char)s->outstream[0] << 8) | (unsigned char)s->outstream[1]; if (s->outstream.size() < 2 + fl) break; Bytes msg = s->outstream.substr(2, fl); s->outstream.erase(0, 2 + fl); w.server_receive(*s, msg); }
    return (ares_ssize_t)n;
  }
  static int s_getsockname(ares_socket_t fd, struct sockaddr *sa, ares_socklen_t *len, void *) {
    World &w = *W(); VSock *s = w.checked("agetsockname", fd); if (!s) { errno = EBADF; return -1; }
    int e = w.fault("agetsockname"); if (e) { w.log("agetsockname", fd, -1, e); errno = e; return -1; }
    struct sockaddr_storage ss; ares_socklen_t sl; Addr a = s->local; if (s->server < 0) { a.family = s->family; } a.to_sockaddr(&ss, &sl);
    if (*len < sl) { errno = EINVAL; return -1; } memcpy(sa, &ss, sl); *len = sl; w.log("agetsockname", fd, 0, 0); return 0;
  }
  static void s_sock_state(void *, ares_socket_t fd, int readable, int writable) {
    World &w = *W(); VSock *s = w.sock(fd);
    w.sockstate_events.push_back({w.now_us, fd, readable, writable, s ? s->open : false});
    if (!s) { w.proto_violations.push_back("socket-state notification for unknown descriptor " + std::to_string(fd)); return; }
    if (!s->open) w.proto_violations.push_back("socket-state notification (" + std::to_string(readable) + "," + std::to_string(writable) + ") after close of descriptor " + std::to_string(fd));
    if (readable || writable) { s->announced = true; s->want_read = readable; s->want_write = writable; }
    else { s->final_notifications++; s->want_read = s->want_write = false; }
  }
  struct Delivered { int64_t t; int fd; uint32_t serial; size_t n; uint64_t ev; };
  std::vector<Delivered> delivered;
  struct SockStateEv { int64_t t; int fd; int r, w; bool open; };
  std::vector<SockStateEv> sockstate_events;
  size_t split_reads = 0, short_writes = 0, blocked_writes = 0, injected = 0, stream_bytes = 0;
  size_t injected_delivered() const { size_t n = 0; for (auto &d : delivered) for (auto &p : provs) if (p.serial == d.serial && !p.genuine && p.forgery != "garbage") n++; return n; }

  bool readable_now(const VSock &s) const {
    if (!s.open) return false;
    if (!s.tcp) { for (auto &d : s.inq) if (d.at <= now_us) return true; return false; }
    return s.avail(now_us) > 0 || ((s.eof || s.reset) && s.queued() == 0);
  }
  int64_t next_delivery() const {
    int64_t best = -1;
    for (auto &s : socks) if (s.open) { for (auto &d : s.inq) if (d.at > now_us && (best < 0 || d.at < best)) best = d.at; for (auto &sg : s.inseg) if (sg.first > now_us && (best < 0 || sg.first < best)) best = sg.first; }
    return best;
  }
};

}  // namespace sim
