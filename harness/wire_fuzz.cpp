// libFuzzer front end for the wire properties: bytes -> (structure-aware) case -> the same oracles as wire_rc.
// Mode from env WIRE_MODE = <prop>-<kind> (e.g. C02-raw, C04-mut, C03-build).  The semantic oracle is inside the target.
#include "wire_cases.hpp"

using namespace vf;

static std::string g_prop = "C02", g_kind = "raw";

extern "C" int LLVMFuzzerInitialize(int *, char ***) {
  ares_library_init_mem(ARES_LIB_INIT_ALL, ledger_malloc, ledger_free, ledger_realloc);
  const char *m = getenv("WIRE_MODE");
  if (m) { std::string s = m; size_t d = s.find('-'); if (d != std::string::npos) { g_prop = s.substr(0, d); g_kind = s.substr(d + 1); } }
  atexit([] { stats().flush(); });
  return 0;
}

extern "C" int LLVMFuzzerTestOneInput(const uint8_t *data, size_t size) {
  // nothing leaks between iterations: the library holds no state between calls here, the ledger is checked per case
  std::string text = wire::case_text(g_prop, g_kind, std::string((const char *)data, size));
  Stats &st = stats();
  st.about_to_run(text);
  std::string sig, detail; bool nt = false;
  bool ok = wire::run_wire_case(text, sig, detail, nt);
  st.record(text, nt);
  if (!ok) { msg("DETAIL %s\nFAIL %s\n", detail.substr(0, 1500).c_str(), sig.c_str()); st.fail(sig, text); __builtin_trap(); }
  return 0;
}
