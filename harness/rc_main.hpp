// Common main() for rapidcheck-driven harnesses.
//   <bin> <mode>            generated search (RC_PARAMS configures rapidcheck; VERIF_OUT/FAIL/LAST paths)
//   <bin> [mode] --replay F  plain replay of a case file (no generator library in the loop)
// A case is a text; run_case() is the only thing that executes it, for both paths.
#pragma once
#include <rapidcheck.h>
#include <functional>
#include <sstream>
#include "common.hpp"

namespace vf {

struct Mode {
  std::string name;
  std::function<rc::Gen<std::string>()> gen;
};

// implemented by the harness
bool run_case(const std::string &text, std::string &sig, bool &nontrivial);

inline std::string strip_comments(const std::string &t) {
  std::istringstream in(t); std::string l, o;
  while (std::getline(in, l)) { if (!l.empty() && l[0] == '#') continue; o += l; o += '\n'; }
  return o;
}

inline int rc_harness_main(int argc, char **argv, const std::vector<Mode> &modes) {
  setvbuf(stdout, nullptr, _IONBF, 0);
  std::string mode, replay;
  for (int i = 1; i < argc; i++) {
    std::string a = argv[i];
    if (a == "--replay" && i + 1 < argc) replay = argv[++i];
    else mode = a;
  }
  if (!replay.empty()) {
    std::string text;
    if (!read_file(replay, text)) { msg("cannot read %s\n", replay.c_str()); return 3; }
    text = strip_comments(text);
    stats().arm_watchdog();
    std::string sig; bool nt = false;
    bool ok = run_case(text, sig, nt);
    if (ok) { msg("PASS\n"); return 0; }
    msg("FAIL %s\n", sig.c_str());
    return 1;
  }
  const Mode *m = nullptr;
  for (auto &x : modes) if (x.name == mode) m = &x;
  if (!m) { msg("unknown mode '%s'\n", mode.c_str()); return 3; }
  Stats &st = stats();
  auto gen = m->gen();
  bool ok = rc::check(m->name, [&]() {
    std::string text = *gen;
    st.about_to_run(text); st.narrowed.clear();
    std::string sig; bool nt = false;
    bool good = run_case(text, sig, nt);
    st.record(text, nt);
    if (!good) { st.fail(sig, st.narrowed.empty() ? text : st.narrowed); RC_FAIL(sig); }
  });
  st.flush();
  return ok ? 0 : 1;
}

// ---- small generator helpers (every inRange sits inside resize: it collapses at small sizes otherwise)
inline rc::Gen<uint32_t> g_range(uint32_t lo, uint32_t hi) { return rc::gen::resize(100, rc::gen::inRange<uint32_t>(lo, hi)); }
inline rc::Gen<uint32_t> g_arg() {
  return rc::gen::oneOf(g_range(0, 8), g_range(0, 8), g_range(0, 70), g_range(0, 5000), rc::gen::arbitrary<uint32_t>());
}

struct OpSpec { const char *name; int weight; int nargs; };

// A program = header lines + weighted op lines "name a b c"
inline rc::Gen<std::string> g_program(const std::string &header, std::vector<OpSpec> ops, int len_mul = 1) {
  int total = 0; for (auto &o : ops) total += o.weight;
  auto opg = rc::gen::tuple(g_range(0, (uint32_t)total), g_arg(), g_arg(), g_arg());
  auto vec = rc::gen::container<std::vector<std::tuple<uint32_t, uint32_t, uint32_t, uint32_t>>>(opg);
  if (len_mul > 1) vec = rc::gen::scale((double)len_mul, vec);
  return rc::gen::map(rc::gen::pair(rc::gen::arbitrary<uint32_t>(), vec),
    [header, ops, total](std::pair<uint32_t, std::vector<std::tuple<uint32_t, uint32_t, uint32_t, uint32_t>>> p) {
      std::string t = header + "seed " + std::to_string(p.first) + "\n";
      for (auto &tp : p.second) {
        int w = (int)std::get<0>(tp); const OpSpec *o = &ops[0];
        for (auto &x : ops) { if (w < x.weight) { o = &x; break; } w -= x.weight; }
        t += o->name;
        uint32_t a[3] = {std::get<1>(tp), std::get<2>(tp), std::get<3>(tp)};
        for (int i = 0; i < o->nargs; i++) { t += ' '; t += std::to_string(a[i]); }
        t += '\n';
      }
      return t;
    });
}

struct Line { std::string op; std::vector<uint64_t> a; std::vector<std::string> w; uint64_t arg(size_t i) const { return i < a.size() ? a[i] : 0; } };
inline std::vector<Line> parse_lines(const std::string &text) {
  std::vector<Line> out; std::istringstream in(text); std::string l;
  while (std::getline(in, l)) {
    if (l.empty() || l[0] == '#') continue;
    std::istringstream ls(l); Line x; ls >> x.op; std::string w;
    while (ls >> w) { x.w.push_back(w); x.a.push_back(strtoull(w.c_str(), nullptr, 10)); }
    if (!x.op.empty()) out.push_back(x);
  }
  return out;
}

}  // namespace vf
