// Simulator part 4: choice bytes -> scenario text (one grammar, a weight profile per property).
#pragma once
#include "wire_common.hpp"
#include <string>

namespace sim {
using wire::Chooser;

struct Profile {
  std::string prop;
  int max_reqs = 6; bool callbacks = false, cancel = false, faults = false, inject = false, reconfig = false, chop = false, cache = false, cookies = false, c07 = false, search = false, addr = false, failover = false, bigtries = false;
  bool all_kinds = true;
};

inline Profile profile_for(const std::string &p) {
  Profile f; f.prop = p;
  if (p == "C01") { f.max_reqs = 8; f.callbacks = f.cancel = f.faults = f.reconfig = f.search = true; }
  else if (p == "C05") { f.inject = true; f.cache = true; f.cookies = true; f.max_reqs = 5; }
  else if (p == "C06") { f.bigtries = true; f.faults = true; f.reconfig = true; f.max_reqs = 3; f.all_kinds = false; }
  else if (p == "C07") { f.c07 = true; f.max_reqs = 5; f.all_kinds = false; }
  else if (p == "C08") { f.cache = true; f.reconfig = true; f.max_reqs = 10; }
  else if (p == "C09") { f.failover = true; f.max_reqs = 10; f.all_kinds = false; f.reconfig = true; }
  else if (p == "C10") { f.faults = true; f.cancel = true; f.reconfig = true; f.chop = true; f.max_reqs = 8; }
  else if (p == "C12") { f.search = true; f.max_reqs = 4; }
  else if (p == "C13") { f.addr = true; f.max_reqs = 5; }
  else if (p == "C14") { f.max_reqs = 24; f.callbacks = f.cancel = f.reconfig = f.search = f.cache = true; }
  else if (p == "C17") { f.cookies = true; f.max_reqs = 8; f.all_kinds = false; }
  else if (p == "C20") { f.chop = true; f.max_reqs = 8; f.all_kinds = false; }
  return f;
}

inline std::string gen_req_name(Chooser &c, int id, const Profile &pf) {
  std::string base = "r" + std::to_string(id);
  unsigned k = c.pick(12);
  if (pf.search || pf.prop == "C01") {
    if (k == 0) return base;                                  // single label
    if (k == 1) return base + ".";                            // trailing dot
    if (k == 2) return base + ".a";                           // one dot
    if (k == 3) return base + ".a.b.c";                       // several dots
    if (k == 4) { std::string l; unsigned n = 55 + c.pick(9); for (unsigned i = 0; i < n; i++) l += "\\065"; return base + "." + l; }   // escaped hostname chars: text 4x longer than wire
    if (k == 5) { std::string n = base; while (n.size() < 240 + c.pick(14)) n += "." + std::string(1 + c.pick(40), 'x'); return n.substr(0, 253); }    // boundary length
    if (k == 6) return base + ".sub.test.";
    if (k == 7 && pf.prop == "C12") return base + ".a\\.b";       // (first label stays r<id>: the simulator attributes transmissions by it)
    // an escaped dot is a dot of the name as given (resolv.conf counts characters) but not a label separator
    if (k == 8 && pf.prop == "C12") return base + ".a\\.b.c";
  }
  static const char *suf[] = {".test", ".example.test", ".a.b.test", ".test", ".Mixed.Case.Test", ".test"};
  return base + suf[c.pick(6)];
}

inline std::string gen_scenario(const unsigned char *data, size_t size, const std::string &prop) {
  Chooser c(data, size); Profile pf = profile_for(prop);
  std::string o;
  o += "seed " + std::to_string(c.u32()) + "\n";
  // ---- options
  std::string flags; auto addflag = [&](const char *f) { if (!flags.empty()) flags += ","; flags += f; };
  bool edns = !c.chance(1, 4); if (edns || pf.cookies) addflag("EDNS");
  if ((c.chance(1, 6) || (prop == "C20" && c.chance(1, 2))) && prop != "C17" && prop != "C09") addflag("USEVC");
  if (c.chance(1, 8)) addflag("IGNTC");
  if (c.chance(1, 4)) addflag("STAYOPEN");
  if (c.chance(1, 5)) addflag("DNS0x20");
  if (c.chance(1, 10)) addflag("NOCHECKRESP");
  if ((pf.search && c.chance(1, 6)) || prop == "C08") addflag("NOSEARCH");   // C08 is about the cache key of the name as given
  if (pf.search && c.chance(1, 8)) addflag("NOALIASES");
  int tries = 1 + (int)c.pick(4); if ((prop == "C12" || prop == "C13") && c.chance(1, 2)) tries = 1; if (pf.bigtries && c.chance(1, 4)) { static const int bt[] = {8, 17, 33, 64, 65, 70, 100}; tries = bt[c.pick(7)]; }
  static const int touts[] = {2000, 300, 1, 250, 251, 1000, 5000, 7000, 100000}; int timeout = touts[c.pick(9)];
  int maxt = c.chance(1, 3) ? (int)(std::max(timeout, 250) * (1 + c.pick(4))) : 0;
  o += "opt flags=" + (flags.empty() ? std::string("NONE") : flags) + " tries=" + std::to_string(tries) + " timeout=" + std::to_string(timeout) + " maxtimeout=" + std::to_string(maxt);
  if (c.chance(1, 3)) o += " rotate=1";
  if (c.chance(1, 3) || prop == "C10") o += " udpmax=" + std::to_string(1 + c.pick(4));
  if (pf.cache || c.chance(1, 3)) { static const long qc[] = {3600, 60, 1, 0, 86400}; o += " qcache=" + std::to_string(qc[c.pick(5)]); } else o += " qcache=0";
  if (pf.search || c.chance(1, 3)) { static const char *d[] = {"a.test,b.test", "dom1.test", "a.test,b.test,c.test,d.test", ".", "x.test,."}; o += std::string(" domains=") + d[c.pick(5)] + " ndots=" + std::to_string(c.pick(4)); }
  else o += " domains=first.test";
  if (pf.failover || c.chance(1, 5)) { static const int ch[] = {1, 1, 10, 0}; static const int dl[] = {0, 1000, 5000, 60000}; o += " failover=" + std::to_string(ch[c.pick(4)]) + "/" + std::to_string(dl[c.pick(4)]); }
  { unsigned pm = c.pick(6); o += std::string(" sockstate=") + (pm == 5 ? "0" : "1") + " process=" + (pm == 5 ? "legacy" : (pm == 4 ? "fd" : "fds")); }
  if (c.chance(1, 4)) o += " pendingwrite=1";
  if (c.chance(1, 6)) o += " nonblock=0";
  if (c.chance(1, 4)) o += " tfo=1";
  if (pf.c07) o += " c07=1";
  if (pf.addr && c.chance(1, 2)) o += " mixed=1";
  if (pf.addr) o += " cnamemod=" + std::to_string(1 + c.pick(3));
  if (prop == "C08" && c.chance(1, 2)) o += " asoa=1";
  if ((prop == "C10" || prop == "C13" || prop == "C01") && c.chance(1, 5)) o += " nogsn=1";
  { static const char *lk[] = {"b", "bf", "fb", "f"}; if (pf.addr || c.chance(1, 6)) o += std::string(" lookups=") + lk[c.pick(4)]; }
  o += "\n";
  unsigned nserv = 1 + c.pick(pf.failover ? 5 : 3);
  if (prop == "C20") nserv = 1;
  if ((prop == "C12" || prop == "C13") && tries == 1 && c.chance(2, 3)) nserv = 1;   // with several servers the choice of the next server depends on how replies are batched into reads, which segmentation legitimately changes
  o += "servers";
  for (unsigned i = 0; i < nserv; i++) { if (c.chance(1, 6)) o += " [fd00::" + std::to_string(i + 1) + "]:53"; else o += " 10.0.0." + std::to_string(i + 1) + (c.chance(1, 8) ? ":5353" : ""); }
  o += "\n";
  // ---- server behaviour
  {
    static const char *ws[] = {"answer=6 nxdomain=1 nodata=1 servfail=1 silence=2 tc=1", "answer=1", "answer=3 silence=3", "answer=2 nxdomain_soa=2 nodata_soa=2 nxdomain=1 nodata=1", "answer=4 servfail=2 refused=1 notimp=1 formerr=1 formerr_opt=1", "answer=3 tc=2 garbage=1 empty=1 dup=1 delay=2", "silence=1", "answer=3 reset=1 eofmid=1 tc=2 silence=1", "answer=4 delay=3 dup=1", "answer=2 badcookie=2 silence=1", "answer=4 nxdomain=1 nodata_soa=1 tc=3 empty=2 dup=1 servfail=1", "answer=3 tc=2 empty=1", "answer=2 nxdomain_soa=2 nodata_soa=1 nxdomain=1 nodata=1 servfail=2 refused=1"};
    unsigned wi = c.pick(10); if (prop == "C06" && c.chance(1, 3)) wi = 6; if (prop == "C08") wi = c.chance(2, 3) ? 3 : 1; if (prop == "C13") wi = c.chance(1, 2) ? 3 : (c.chance(1, 2) ? 1 : 12); if (prop == "C12") wi = c.chance(1, 2) ? 3 : 12; if (prop == "C17") wi = c.chance(1, 2) ? 9 : 1; if (prop == "C20") wi = 10 + c.pick(2);
    o += std::string("weights ") + ws[wi] + "\n";
    unsigned nr = prop == "C20" ? 0 : c.pick(3);
    for (unsigned i = 0; i < nr; i++) o += "rule " + (c.chance(1, 2) ? std::string("*") : std::to_string(c.pick(nserv))) + " " + (c.chance(1, 2) ? std::string("*") : "r" + std::to_string(1 + c.pick(pf.max_reqs))) + " " + (c.chance(1, 2) ? std::string("*") : std::to_string(c.pick(3))) + " " + kOutcomeNames[c.pick(O__COUNT)] + "\n";
    if (pf.cookies || c.chance(1, 5)) for (unsigned i = 0; i < nserv; i++) { static const char *cm[] = {"valid", "valid", "none", "changing", "wrongclient", "short"}; o += "cookie " + std::to_string(i) + " " + cm[c.pick(6)] + "\n"; }
  }
  if (prop == "C09" && c.chance(1, 3)) { static const char *errs[] = {"ECONNREFUSED", "ECONNRESET", "ENETUNREACH"}; unsigned nf = 1 + c.pick(2); for (unsigned i = 0; i < nf; i++) o += std::string("fail arecvfrom ") + std::to_string(1 + c.pick(5)) + " " + errs[c.pick(3)] + "\n"; }
  if (pf.faults) { unsigned nf = c.pick(3); for (unsigned i = 0; i < nf; i++) { static const char *calls[] = {"asendto", "arecvfrom", "aconnect", "asocket", "agetsockname", "asetsockopt"}; static const char *errs[] = {"ECONNREFUSED", "ECONNRESET", "ENETUNREACH", "EMFILE", "EWOULDBLOCK", "EINTR", "EACCES"}; o += std::string("fail ") + calls[c.pick(6)] + " " + std::to_string(1 + c.pick(6)) + " " + errs[c.pick(7)] + "\n"; } }
  if (pf.chop || c.chance(1, 8)) { if (c.chance(2, 3)) { o += "chop "; unsigned n = 1 + c.pick(4); for (unsigned i = 0; i < n; i++) o += (i ? "," : "") + std::to_string(1 + c.pick(c.chance(1, 2) ? 3 : 40)); o += "\n"; } if (c.chance(1, 2)) { o += "partial "; unsigned n = 1 + c.pick(4); for (unsigned i = 0; i < n; i++) o += (i ? "," : "") + std::to_string(c.pick(c.chance(1, 2) ? 4 : 50)); o += ",64\n"; } }
  if (pf.search && c.chance(1, 3)) o += "alias r" + std::to_string(1 + c.pick(3)) + " target" + std::to_string(c.pick(3)) + ".alias.test\n";
  if (pf.prop == "C13" && c.chance(1, 4)) { static const char *ll[] = {"127.0.0.1 localhost", "::1 localhost", "127.0.0.1 localhost\nhosts ::1 localhost", "127.0.0.2 localhost", "127.0.0.1 localhost x.localhost"}; o += std::string("hosts ") + ll[c.pick(5)] + "\n"; }
  if (pf.addr && c.chance(1, 2)) { unsigned n = 1 + c.pick(3); for (unsigned i = 0; i < n; i++) o += std::string("hosts ") + (c.chance(1, 3) ? "2001:db8::" + std::to_string(i + 1) : "192.0.2." + std::to_string(i + 1)) + " r" + std::to_string(1 + c.pick(3)) + ".test" + (c.chance(1, 4) ? " r" + std::to_string(1 + c.pick(3)) + ".alt.test" : "") + "\n"; }
  // ---- body
  unsigned nreq = 1 + c.pick((unsigned)pf.max_reqs); int id = 0; unsigned body = nreq + c.pick(10);
  std::vector<int> ids;
  if (prop == "C17" && c.chance(1, 6)) {
    // regression production without an adversary: support proven, the server stops sending cookies (at an instant with or without a zero microsecond part), the period passes, a new request must get through
    std::string o2 = o.substr(0, o.find("opt ")) + "opt flags=EDNS tries=1 timeout=2000 maxtimeout=0 qcache=0 domains=first.test sockstate=1 process=fds\nservers 10.0.0.1\nweights answer=1\ncookie 0 valid\n";
    o2 += "req 1 query r1.test A\nstep\nstep\ncookiemode 0 none\n"; if (c.chance(2, 3)) o2 += "adv 999999us\n"; if (c.chance(1, 2)) o2 += "adv " + std::to_string(1 + c.pick(50)) + "s\n";
    o2 += "req 2 query r2.test A\nstep\nstep\nadv timeout\nstep\n"; static const char *w2[] = {"adv 121s", "adv 125s", "adv 119s", "adv 301s", "adv 3600s"}; o2 += std::string(w2[c.pick(5)]) + "\n";
    o2 += "req 3 query r3.test A\nstep\nstep\nadv timeout\nstep\n"; if (c.chance(1, 2)) o2 += "adv 130s\nreq 4 query r4.test A\nstep\nstep\n";
    return o2;
  }
  if (pf.cookies && c.chance(1, 3)) {
    // cookie life-cycle production: prove support, a cookie-less reply, more valid traffic, cross a timer, then test again
    o += "cookie 0 valid\nrule 0 * * answer\n";
    static const char *waits[] = {"adv 121s", "adv 119s", "adv 301s", "adv 86401s", "adv 30s", "adv 120s"};
    o += "req 1 query r1.test A\nstep\nstep\n"; id = 1; ids.push_back(1);
    o += "rule * r2 0 silence\nreq 2 query r2.test A\ninject nocookie 2\nstep\nadv timeout\nstep\nstep\n"; id = 2; ids.push_back(2);
    if (c.chance(2, 3)) { o += "req 3 query r3.test A\nstep\nstep\n"; id = 3; ids.push_back(3); }
    o += std::string(waits[c.pick(6)]) + "\n";
    if (c.chance(1, 3)) o += "srcaddr 0 192.168.9.9\n";
    o += "rule * r4 0 silence\nreq 4 query r4.test A\ninject " + std::string(c.chance(3, 4) ? "nocookie" : "badclientcookie") + " 4" + (c.chance(1, 2) ? "" : (c.chance(1, 2) ? " servfail" : (c.chance(1, 2) ? " refused" : " formerr"))) + "\nstep\nstep\n"; id = 4; ids.push_back(4);
  }
  if (prop == "C06" && c.chance(1, 8)) {
    // a server that rejects every cookie and keeps changing its own: the BADCOOKIE resend path must be bounded like any other
    o += "cookie 0 changing\nrule * * * badcookie\n";
  }
  if (prop == "C14" && c.chance(1, 4)) {
    // burst production: many requests outstanding at once (hash tables and lists grow while requests are in flight)
    o += std::string("rule * * * ") + (c.chance(1, 2) ? "silence" : "delay") + "\n";
    unsigned nb = 10 + c.pick(12); static const char *ks[] = {"query", "send", "lquery", "search", "getaddrinfo"};
    for (unsigned j = 0; j < nb && id < pf.max_reqs; j++) { id++; ids.push_back(id); std::string kind = ks[c.pick(5)]; o += "req " + std::to_string(id) + " " + kind + " r" + std::to_string(id) + ".test" + (kind == "getaddrinfo" ? " INET" : " A") + "\n"; if (c.chance(1, 6)) o += "step\n"; }
  }
  if (prop == "C08" && c.chance(1, 2)) {
    // cache life-cycle production: fill, let time pass (below, at and beyond typical TTLs), ask again through another API / spelling of the same key
    static const char *ks[] = {"query", "send", "lquery", "getaddrinfo", "gethostbyname", "lsend"}; static const char *forms[] = {"r1.test", "R1.TEST", "r1.test.", "r1.Test"};
    static const char *adv[] = {"1s", "2s", "3s", "4s", "6s", "8s", "29s", "31s", "59s", "61s", "99s", "101s", "299s", "301s", "999999us", "1000001us", "3599s", "3601s"};
    unsigned rounds = 2 + c.pick(4);
    for (unsigned j = 0; j < rounds && id < pf.max_reqs; j++) {
      id++; ids.push_back(id); std::string kind = ks[c.pick(6)];
      o += "req " + std::to_string(id) + " " + kind + " " + forms[c.pick(4)];
      if (kind == "getaddrinfo" || kind == "gethostbyname") o += " INET"; else o += " A";
      o += "\nstep\nstep\n";
      if (c.chance(3, 4)) o += std::string("adv ") + adv[c.pick(18)] + "\nstep\n";
    }
  }
  for (unsigned i = 0; i < body; i++) {
    unsigned k = c.pick(20);
    if ((k < 8 || ids.empty()) && id < pf.max_reqs) {
      id++; ids.push_back(id);
      static const char *kinds_all[] = {"query", "search", "send", "getaddrinfo", "gethostbyname", "gethostbyaddr", "getnameinfo", "lquery", "lsearch", "lsend"};
      static const char *kinds_simple[] = {"query", "send", "lquery", "query"};
      std::string kind = pf.all_kinds ? kinds_all[c.pick(10)] : kinds_simple[c.pick(4)];
      if (prop == "C08") { static const char *ks[] = {"query", "send", "lquery", "getaddrinfo", "gethostbyname", "query", "lsend", "query"}; kind = ks[c.pick(8)]; }
      if (prop == "C12") { static const char *ks[] = {"search", "lsearch", "getaddrinfo", "gethostbyname", "search"}; kind = ks[c.pick(5)]; }
      if (prop == "C13") { static const char *ks[] = {"getaddrinfo", "gethostbyname", "gethostbyaddr", "getnameinfo", "getaddrinfo", "hostsfile"}; kind = ks[c.pick(6)]; }
      std::string name = gen_req_name(c, (prop == "C08" && id > 1) ? 1 + (int)c.pick(2) : id, pf);
      if (prop == "C13" && (kind == "getaddrinfo" || kind == "gethostbyname") && c.chance(1, 5)) name = "r" + std::to_string(id);   // single label: walks the search list
      if (prop == "C13" && (kind == "getaddrinfo" || kind == "gethostbyname" || kind == "hostsfile") && c.chance(1, 12)) { static const char *near[] = {".mylocalhost", "localhost", ".localhost.test", ".xlocalhost", ".localhos"}; name = "r" + std::to_string(id) + near[c.pick(5)]; }   // near misses of the loopback rule: ordinary names
      if (prop == "C13" && (kind == "getaddrinfo" || kind == "gethostbyname") && c.chance(1, 10)) name = c.chance(1, 2) ? "192.0.2." + std::to_string(50 + c.pick(100)) : "2001:db8::" + std::to_string(1 + c.pick(200));   // numeric host names
      if (prop == "C13" && (kind == "hostsfile" || ((kind == "getaddrinfo" || kind == "gethostbyname") && c.chance(1, 12)))) { static const char *hn[] = {"localhost", "localhost", "x.localhost", "LocalHost"}; unsigned hk = c.pick(8); name = hk < 4 ? std::string(hn[hk]) : "r" + std::to_string(id) + (hk == 7 ? ".alt.test" : ".test"); }   // (names keep the r<id> label: transmissions are attributed to requests by it)   // names the hosts file may list, and the loopback rule
      if (prop == "C08") { static const char *forms[] = {"r%d.test", "r%d.test", "R%d.TEST", "r%d.test.", "r%d.Test"}; char nb[64]; snprintf(nb, sizeof nb, forms[c.pick(5)], 1 + (int)c.pick(2)); name = nb; }
      bool inject_now = pf.inject && c.chance(2, 3);
      if (inject_now) o += "rule * r" + std::to_string(id) + " 0 " + (c.chance(1, 2) ? "silence" : "delay") + "\n";   // keep the request live so that the forged packet is what arrives first
      o += "req " + std::to_string(id) + " " + kind + " " + name;
      if (kind == "getaddrinfo" || kind == "gethostbyname" || kind == "gethostbyaddr" || kind == "getnameinfo" || kind == "hostsfile") { static const char *fam[] = {"INET", "INET6", "UNSPEC", "INET"}; unsigned fi = c.pick(4); if (kind != "getaddrinfo" && kind != "gethostbyname" && fi == 2) fi = 0; o += std::string(" ") + fam[fi]; if (kind == "getaddrinfo") { unsigned fl = 0; if (c.chance(1, 3)) fl |= ARES_AI_CANONNAME; if (c.chance(1, 3)) fl |= ARES_AI_NOSORT; if (c.chance(1, 6)) fl |= ARES_AI_ENVHOSTS; if (fl) o += " flags=" + std::to_string(fl); if (c.chance(1, 3)) o += " port=" + std::to_string(1 + c.pick(65535)); } }
      else if (prop == "C08") { static const char *qt[] = {"A", "A", "AAAA", "TXT", "A", "99", "100", "A", "A", "A"}; o += std::string(" ") + qt[c.pick(10)]; }
      else { static const char *qt[] = {"A", "A", "AAAA", "TXT", "A"}; o += std::string(" ") + qt[c.pick(5)]; }
      if (prop == "C08" && c.chance(1, 4)) o += std::string(" cb=") + (c.chance(1, 2) ? "again" : "slowagain");
      if (pf.callbacks && c.chance(1, 3)) { static const char *sc[] = {"new", "cancel", "newcancel", "cancelnew", "new2", "newsearch", "newgai", "slownew"}; o += std::string(" cb=") + sc[c.pick(8)]; }
      o += "\n";
      if (inject_now) { static const char *ik[] = {"wrongid", "wrongname", "wrongtype", "wrongclass", "wrongcase", "wrongsrc", "wrongsock", "late", "nocookie", "badclientcookie"}; if (c.chance(1, 3)) o += "adv timeout\nstep\n"; { static const char *fw[] = {"", "", "", " servfail", " refused", " notimp", " formerr", " nxdomain"}; o += std::string("inject ") + ik[c.pick(10)] + " " + std::to_string(id) + fw[c.pick(8)] + "\n"; } if (c.chance(1, 2)) o += "step\n"; }
    } else if (k < 12) o += "step\n";
    else if (k < 14 && prop == "C20") o += "step\n";   // (no clock jumps: a deadline passing while half a message is buffered is a race with the application, not a segmentation effect)
    else if (k < 14 && prop == "C08") { static const char *adv[] = {"1s", "2s", "3s", "4s", "6s", "2s", "3s", "1s", "29s", "31s", "59s", "61s", "101s", "299s", "301s", "3601s", "999999us", "1000001us", "86401s", "4s"}; o += std::string("adv ") + adv[c.pick(20)] + "\nstep\n"; }
    else if (k < 14) { static const char *adv[] = {"timeout", "1ms", "137ms", "2s", "timeout-1", "300s", "86400s", "120s", "999999us", "5s"}; o += std::string("adv ") + adv[c.pick(10)] + "\n"; }
    else if (k == 14 && pf.cancel) o += "cancel\n";
    else if (k == 15 && pf.reconfig) { if (c.chance(1, 2)) o += "reinit\n"; else { o += "setservers"; unsigned n = 1 + c.pick(3); for (unsigned j = 0; j < n; j++) o += " 10.0.0." + std::to_string(1 + c.pick(5)); o += "\n"; } }
    else if ((k == 16 || k == 17) && pf.inject && !ids.empty()) { static const char *ik[] = {"wrongid", "wrongname", "wrongtype", "wrongclass", "wrongcase", "wrongsrc", "wrongsock", "late", "nocookie", "badclientcookie"}; static const char *fw[] = {"", "", "", " servfail", " refused", " notimp", " formerr", " nxdomain"}; o += std::string("inject ") + ik[c.pick(10)] + " " + std::to_string(ids[c.pick((unsigned)ids.size())]) + fw[c.pick(8)] + "\n"; }
    else if (k == 18 && (pf.faults || prop == "C10")) o += "step stale " + std::to_string(c.pick(4)) + "\n";
    else if (k == 19 && pf.cookies && c.chance(1, 2)) { static const char *cm[] = {"valid", "none", "changing", "valid", "short", "wrongclient"}; o += "cookiemode " + std::to_string(c.pick(nserv)) + " " + cm[c.pick(6)] + "\n"; }
    else if (k == 19 && pf.cookies) o += "srcaddr " + std::to_string(c.pick(nserv)) + " 192.168.7." + std::to_string(1 + c.pick(200)) + "\n";
    else o += "step\n";
  }
  if (prop == "C14") {
    // which allocation to refuse: a handful of indices per scenario (reduced modulo the scenario's allocation count), or every index (SIM_C14_ALL=1: thorough tier)
    const char *all = getenv("SIM_C14_ALL");
    if (all && *all == '1') o += "failat all\n";
    else { o += "failat"; unsigned n = 4 + c.pick(8); for (unsigned i = 0; i < n; i++) o += " " + std::to_string(c.chance(1, 3) ? c.pick(200) : c.u32() % 100000); o += "\n"; }
  }
  return o;
}

}  // namespace sim
