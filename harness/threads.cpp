// C11 (concurrent use of one channel) and C07 part (b) (event thread: every query completes within its retry budget
// with no application action).  Real threads, the library's built-in event thread on each backend, real loopback sockets and
// a mock DNS server thread inside the harness.  Built twice: variant tsan (ThreadSanitizer: races, lock-order inversions) and
// variant tasan (ASan+UBSan: memory errors under concurrency, and the C07b timing runs).
//
// Program text (the case; one item per line):
//   prop C11|C07
//   seed N
//   backend epoll|poll|select
//   opt flags=STAYOPEN,USEVC,... tries=N timeout=MS
//   answers K           server answers the first K queries it receives, then stays silent (-1: always answers)
//   dead 0|1            a second, unreachable server is configured first (connection refused / silence)
//   t <tid> <op> [arg] [cb=reinit|query|cancel]     ops: query search gai ghbn cancel setservers reinit waitempty <ms> active timeout sleep <us>
// All threads start together; each runs its own ops in order.  Then the main thread waits for the queue to drain, destroys the
// channel and checks the oracles.
#include "cares_internal.hpp"
#include "wire_common.hpp"
#include "rc_main.hpp"
#include <atomic>
#include <thread>
#include <poll.h>
#include <fcntl.h>
#include <sys/stat.h>
#include <sched.h>
#include <sys/wait.h>

using namespace vf;
using wire::Chooser;

#ifdef VERIF_VARIANT_TSAN
// ThreadSanitizer models descriptor numbers as synchronisation objects; its epoll_ctl interceptor reports (and in clang 14 sometimes crashes while reporting, CHECK in
// ScopedReportBase::AddLocation) a "race" when the event thread's deferred EPOLL_CTL_DEL uses a number another thread has re-opened (DESIGN.md section 10, entry 27).
// A strong definition here takes precedence over the runtime's weak interceptor, so epoll_ctl goes straight to the kernel; the library synchronises through its own mutexes.
#include <sys/epoll.h>
#include <sys/syscall.h>
extern "C" int epoll_ctl(int epfd, int op, int fd, struct epoll_event *ev) { return (int)syscall(SYS_epoll_ctl, epfd, op, fd, ev); }
#endif

static int64_t now_us() { struct timespec ts; clock_gettime(CLOCK_MONOTONIC, &ts); return (int64_t)ts.tv_sec * 1000000 + ts.tv_nsec / 1000; }

// ------------------------------------------------------------------ mock server (own thread; plain sockets; atomics only)
struct MockServer {
  int udp = -1, lis = -1, wake[2] = {-1, -1}; unsigned short port = 0; std::thread th; std::atomic<bool> stop{false};
  std::atomic<long> answers_left{-1}; std::atomic<long> received{0}, answered{0};
  std::string logpath; std::vector<std::pair<std::string, int64_t>> rxlog;   // (first label, arrival time): written by the child when it stops, read by the parent afterwards
  struct Pending { int64_t due; int fd; bool tcp; struct sockaddr_in to; std::string data; };

  bool start() {
    for (int attempt = 0; attempt < 50; attempt++) {
      udp = socket(AF_INET, SOCK_DGRAM, 0); lis = socket(AF_INET, SOCK_STREAM, 0); if (udp < 0 || lis < 0) return false;
      int one = 1; setsockopt(lis, SOL_SOCKET, SO_REUSEADDR, &one, sizeof one);
      struct sockaddr_in a; memset(&a, 0, sizeof a); a.sin_family = AF_INET; a.sin_addr.s_addr = htonl(INADDR_LOOPBACK); a.sin_port = 0;
      if (bind(udp, (struct sockaddr *)&a, sizeof a) != 0) return false; socklen_t l = sizeof a; getsockname(udp, (struct sockaddr *)&a, &l); port = ntohs(a.sin_port);
      if (bind(lis, (struct sockaddr *)&a, sizeof a) == 0 && listen(lis, 64) == 0) break;
      close(udp); close(lis); udp = lis = -1;
    }
    if (udp < 0) return false;
    if (pipe(wake) != 0) return false;
    fcntl(udp, F_SETFL, O_NONBLOCK); fcntl(lis, F_SETFL, O_NONBLOCK);
    // The server runs in a child process (forked while this process is single-threaded): descriptors it creates (accepted TCP connections) then never share numbers with the
    // library's, so ThreadSanitizer's descriptor tracking only sees the library's own sockets.
    fflush(nullptr);
    child = fork();
    if (child < 0) return false;
    if (child == 0) { close(wake[1]); run(); if (!logpath.empty()) { FILE *f = fopen(logpath.c_str(), "w"); if (f) { for (auto &e : rxlog) { std::string nm; for (char ch : e.first) nm += (isalnum((unsigned char)ch) ? ch : '_'); fprintf(f, "%s %lld\n", nm.c_str(), (long long)e.second); } fclose(f); } } _exit(0); }
    close(udp); close(lis); close(wake[0]); udp = lis = -1; wake[0] = -1;
    return true;
  }
  pid_t child = -1;
  void shutdown() { if (wake[1] >= 0) { char c = 1; if (write(wake[1], &c, 1) < 0) {} close(wake[1]); wake[1] = -1; } if (child > 0) { int st; waitpid(child, &st, 0); child = -1; } }

  // build a reply for the request; empty = no reply.  delay_ms out.
  std::string reply_for(const unsigned char *q, size_t n, bool tcp, int &delay_ms) {
    delay_ms = 0; if (n < 17) return "";
    received++;
    size_t p = 12; std::string first; bool got_first = false;
    while (p < n && q[p] != 0) { size_t l = q[p]; if (l > 63 || p + 1 + l > n) return ""; if (!got_first) { first.assign((const char *)q + p + 1, l); got_first = true; } p += 1 + l; }
    if (p + 5 > n) return ""; size_t qend = p + 5; unsigned qtype = (q[p + 1] << 8) | q[p + 2];
    if (rxlog.size() < 4096) rxlog.push_back({first, now_us()});
    char c0 = first.empty() ? 'a' : (char)tolower((unsigned char)first[0]);
    if (c0 == 's') return "";
    long left = answers_left.load(); if (left == 0) return ""; if (left > 0) answers_left--;
    if (c0 == 'd') delay_ms = 20;
    std::string r((const char *)q, qend); r[2] = (char)(0x80 | (q[2] & 0x01)); r[3] = (char)0x80; r[6] = 0; r[7] = 0; r[8] = 0; r[9] = 0; r[10] = 0; r[11] = 0;
    if (c0 == 't' && !tcp) { r[2] = (char)(r[2] | 0x02); answered++; return r; }          // truncated over UDP
    if (c0 == 'n') { r[3] = (char)0x83; answered++; return r; }                              // NXDOMAIN
    if (qtype == 1) { r[7] = 1; static const unsigned char rr[] = {0xc0, 0x0c, 0, 1, 0, 1, 0, 0, 0, 60, 0, 4, 10, 1, 2, 3}; r.append((const char *)rr, sizeof rr); }
    else if (qtype == 28) { r[7] = 1; static const unsigned char rr[] = {0xc0, 0x0c, 0, 28, 0, 1, 0, 0, 0, 60, 0, 16, 0xfd, 0, 0, 0, 0, 0, 0, 0, 0, 0, 0, 0, 0, 0, 0, 1}; r.append((const char *)rr, sizeof rr); }
    answered++;
    return r;
  }
  void run() {
    std::vector<int> conns; std::map<int, std::string> inbuf; std::vector<Pending> pend;
    while (!stop) {
      std::vector<struct pollfd> pf; pf.push_back({udp, POLLIN, 0}); pf.push_back({lis, POLLIN, 0}); pf.push_back({wake[0], POLLIN, 0}); for (int c : conns) pf.push_back({c, POLLIN, 0});
      int to = 200; int64_t t = now_us(); for (auto &p : pend) { int d = (int)std::max<int64_t>(0, (p.due - t) / 1000); to = std::min(to, d); }
      poll(pf.data(), pf.size(), to);
      t = now_us();
      for (size_t i = 0; i < pend.size();) { if (pend[i].due <= t) { if (pend[i].tcp) { if (send(pend[i].fd, pend[i].data.data(), pend[i].data.size(), MSG_NOSIGNAL) < 0) {} } else if (sendto(udp, pend[i].data.data(), pend[i].data.size(), 0, (struct sockaddr *)&pend[i].to, sizeof pend[i].to) < 0) {} pend.erase(pend.begin() + (long)i); } else i++; }
      if (pf[0].revents & POLLIN) for (;;) { unsigned char b[2048]; struct sockaddr_in from; socklen_t fl = sizeof from; ssize_t n = recvfrom(udp, b, sizeof b, 0, (struct sockaddr *)&from, &fl); if (n <= 0) break; int d = 0; std::string r = reply_for(b, (size_t)n, false, d); if (r.empty()) continue; if (d) pend.push_back({t + d * 1000, udp, false, from, r}); else if (sendto(udp, r.data(), r.size(), 0, (struct sockaddr *)&from, fl) < 0) {} }
      if (pf[1].revents & POLLIN) for (;;) { int c = accept(lis, nullptr, nullptr); if (c < 0) break; fcntl(c, F_SETFL, O_NONBLOCK); conns.push_back(c); }
      for (size_t i = 3; i < pf.size(); i++) if (pf[i].revents & (POLLIN | POLLHUP | POLLERR)) {
        int c = pf[i].fd; unsigned char b[4096]; ssize_t n = recv(c, b, sizeof b, 0);
        if (n <= 0) { if (n == 0 || (errno != EAGAIN && errno != EWOULDBLOCK)) { close(c); conns.erase(std::remove(conns.begin(), conns.end(), c), conns.end()); inbuf.erase(c); for (size_t k = 0; k < pend.size();) { if (pend[k].tcp && pend[k].fd == c) pend.erase(pend.begin() + (long)k); else k++; } } continue; }
        std::string &ib = inbuf[c]; ib.append((const char *)b, (size_t)n);
        while (ib.size() >= 2) { size_t l = ((unsigned char)ib[0] << 8) | (unsigned char)ib[1]; if (ib.size() < 2 + l) break; int d = 0; std::string r = reply_for((const unsigned char *)ib.data() + 2, l, true, d); ib.erase(0, 2 + l); if (r.empty()) continue; std::string fr; fr += (char)(r.size() >> 8); fr += (char)(r.size() & 0xff); fr += r; if (d) { struct sockaddr_in z; memset(&z, 0, sizeof z); pend.push_back({t + d * 1000, c, true, z, fr}); } else if (send(c, fr.data(), fr.size(), MSG_NOSIGNAL) < 0) {} }
      }
      if (pf[2].revents & (POLLIN | POLLHUP)) stop = true;   // the parent asked us to finish (or is gone)
    }
    for (int c : conns) close(c);
  }
};

// ------------------------------------------------------------------ program
struct Op { int tid; std::string op, arg, cb; };
struct Program { std::string prop = "C11", backend = "epoll", flags; int tries = 2, timeout = 100; long answers = -1; bool dead = false; bool tight = false; uint32_t seed = 1; std::vector<Op> ops; int nthreads = 0; };
static bool parse_program(const std::string &text, Program &p) {
  std::istringstream in(text); std::string l;
  while (std::getline(in, l)) { if (l.empty() || l[0] == '#') continue; std::istringstream ls(l); std::string k; ls >> k;
    if (k == "prop") ls >> p.prop; else if (k == "seed") ls >> p.seed; else if (k == "backend") ls >> p.backend; else if (k == "answers") ls >> p.answers; else if (k == "dead") { int d = 0; ls >> d; p.dead = d != 0; } else if (k == "tight") { int d = 0; ls >> d; p.tight = d != 0; }
    else if (k == "opt") { std::string w; while (ls >> w) { if (w.rfind("flags=", 0) == 0) p.flags = w.substr(6); else if (w.rfind("tries=", 0) == 0) p.tries = std::max(1, atoi(w.c_str() + 6)); else if (w.rfind("timeout=", 0) == 0) p.timeout = std::max(1, atoi(w.c_str() + 8)); } }
    else if (k == "t") { Op o; ls >> o.tid >> o.op; std::string w; while (ls >> w) { if (w.rfind("cb=", 0) == 0) o.cb = w.substr(3); else o.arg = w; } if (o.tid >= 0 && o.tid < 8 && !o.op.empty()) { p.ops.push_back(o); p.nthreads = std::max(p.nthreads, o.tid + 1); } } }
  return p.nthreads > 0;
}

// ------------------------------------------------------------------ run state (atomics only: the harness itself must be race-free)
static const int MAXREQ = 2048;
struct ReqSlot { std::atomic<int> calls{0}; std::atomic<int> status{-1}; std::atomic<int64_t> t_issue{0}, t_done{0}; std::atomic<uint64_t> issued_seq{0}; std::atomic<int> cbkind{0}; std::atomic<int> late{0}; };
struct Run {
  ares_channel_t *ch = nullptr; ReqSlot *req = nullptr; std::atomic<int> nreq{0}; std::atomic<uint64_t> seq{1}; std::atomic<bool> destroyed{false};
  std::atomic<int> pending{0}; std::atomic<int> overlap_issues{0}; std::atomic<int> reconfigs{0}; std::atomic<int> wait_ok{0}, wait_timeout{0}; std::atomic<int> wait_violation{0}; std::atomic<int> cb_reinit{0}, cb_query{0}, cb_cancel{0};
  std::string csv; std::atomic<int> last_issuer{-1}; int slow_us = 0; std::atomic<int> cb_slow{0};
  std::atomic<int64_t> t_empty{0}, t_last_issue{0}; std::atomic<int> slept_through{0}; std::atomic<int> long_waits{0};
};
struct CbArg { Run *run; int idx; };
static CbArg g_cbargs[MAXREQ];
static thread_local uint64_t tl_rng = 0;
static thread_local int tl_tid = -1;
static std::atomic<uint32_t> g_seed{1};
static void yield_hook(void) {
  if (tl_rng == 0) tl_rng = 0x9E3779B97F4A7C15ULL ^ (uint64_t)g_seed.load() ^ ((uint64_t)(uintptr_t)&tl_rng >> 4);
  tl_rng ^= tl_rng << 13; tl_rng ^= tl_rng >> 7; tl_rng ^= tl_rng << 17;
  unsigned r = (unsigned)(tl_rng & 0xff); if (r < 40) sched_yield(); else if (r < 48) usleep((unsigned)(tl_rng >> 8) % 80);
}
// hook H2: the library's randomness (query ids, retry jitter, rotation) from a seeded, thread-safe stream, so that the retry deadlines of a program are the same on every attempt
static std::atomic<uint64_t> g_rand_ctr{0};
static void rand_hook(unsigned char *buf, size_t len) { for (size_t i = 0; i < len; i++) { uint64_t x = g_rand_ctr.fetch_add(0x9E3779B97F4A7C15ULL) + 0x9E3779B97F4A7C15ULL; x ^= x >> 30; x *= 0xBF58476D1CE4E5B9ULL; x ^= x >> 27; x *= 0x94D049BB133111EBULL; x ^= x >> 31; buf[i] = (unsigned char)(x >> 24); } }
static int issue(Run &R, const std::string &kind, const std::string &name, int cbkind);
static void on_done(Run *R, int idx, int status) {
  ReqSlot &s = R->req[idx]; if (R->destroyed.load()) s.late++;
  int before = s.calls.fetch_add(1); if (before == 0) { s.status = status; s.t_done = now_us(); if (R->pending.fetch_sub(1) == 1) R->t_empty = now_us(); }
  if (before != 0 || R->destroyed.load()) return;
  int k = s.cbkind.load(); if (status == ARES_EDESTRUCTION || status == ARES_ECANCELLED) return;
  if (k == 4) { R->cb_slow++; usleep((useconds_t)R->slow_us); return; }   // a slow application callback: other deadlines pass while the event thread is inside it
  if (k == 1) { R->cb_reinit++; ares_reinit(R->ch); R->reconfigs++; } else if (k == 2) { R->cb_query++; issue(*R, "query", "f" + std::to_string(idx) + ".test", 0); } else if (k == 3) { R->cb_cancel++; ares_cancel(R->ch); }
}
static void cb_rec(void *arg, ares_status_t st, size_t, const ares_dns_record_t *rec) { CbArg *a = (CbArg *)arg; if (rec) (void)ares_dns_record_rr_cnt(rec, ARES_SECTION_ANSWER); on_done(a->run, a->idx, (int)st); }
static void cb_ai(void *arg, int st, int, struct ares_addrinfo *ai) { CbArg *a = (CbArg *)arg; if (ai) ares_freeaddrinfo(ai); on_done(a->run, a->idx, st); }
static void cb_he(void *arg, int st, int, struct hostent *) { CbArg *a = (CbArg *)arg; on_done(a->run, a->idx, st); }
static int issue(Run &R, const std::string &kind, const std::string &name, int cbkind) {
  int idx = R.nreq.fetch_add(1); if (idx >= MAXREQ) { R.nreq--; return -1; }
  ReqSlot &s = R.req[idx]; s.cbkind = cbkind; s.t_issue = now_us(); g_cbargs[idx].run = &R; g_cbargs[idx].idx = idx;
  int prev = R.last_issuer.exchange(tl_tid); if (R.pending.load() > 0 && prev != tl_tid && prev >= 0 && tl_tid >= 0) R.overlap_issues++;
  R.pending++; R.t_last_issue = now_us();
  if (kind == "query") ares_query_dnsrec(R.ch, name.c_str(), ARES_CLASS_IN, ARES_REC_TYPE_A, cb_rec, &g_cbargs[idx], nullptr);
  else if (kind == "search") { ares_dns_record_t *rec = nullptr; if (ares_dns_record_create(&rec, 0, ARES_FLAG_RD, ARES_OPCODE_QUERY, ARES_RCODE_NOERROR) == ARES_SUCCESS && ares_dns_record_query_add(rec, name.c_str(), ARES_REC_TYPE_A, ARES_CLASS_IN) == ARES_SUCCESS) ares_search_dnsrec(R.ch, rec, cb_rec, &g_cbargs[idx]); else on_done(&R, idx, ARES_ENOMEM); ares_dns_record_destroy(rec); }
  else if (kind == "gai") { struct ares_addrinfo_hints h; memset(&h, 0, sizeof h); h.ai_family = AF_UNSPEC; ares_getaddrinfo(R.ch, name.c_str(), nullptr, &h, cb_ai, &g_cbargs[idx]); }
  else ares_gethostbyname(R.ch, name.c_str(), AF_INET, cb_he, &g_cbargs[idx]);
  s.issued_seq = R.seq.fetch_add(1);   // published after the API call returned: "issued before" for the wait-empty oracle
  return idx;
}

struct Outcome { bool ok = true; std::string sig, detail; bool nontrivial = false; };
static bool failo(Outcome &o, const std::string &sig, const std::string &d) { if (o.ok) { o.ok = false; o.sig = sig; o.detail = d; } return false; }
static std::string g_tmp;

static Outcome run_program(const Program &P) {
  Outcome out; g_seed = P.seed;
  MockServer srv; srv.answers_left = P.answers; srv.logpath = g_tmp + "/srvlog"; unlink(srv.logpath.c_str()); if (!srv.start()) { failo(out, "harness.mock-server", "cannot start the loopback server"); return out; }
  static ReqSlot *slots = new ReqSlot[MAXREQ]; for (int i = 0; i < MAXREQ; i++) { slots[i].calls = 0; slots[i].status = -1; slots[i].t_issue = 0; slots[i].t_done = 0; slots[i].issued_seq = 0; slots[i].cbkind = 0; slots[i].late = 0; }
  Run R; R.req = slots; R.slow_us = P.timeout * 1300;
  std::string rp = g_tmp + "/resolv.conf", hp = g_tmp + "/hosts"; { FILE *f = fopen(rp.c_str(), "w"); if (f) { fputs("options ndots:1\n", f); fclose(f); } f = fopen(hp.c_str(), "w"); if (f) fclose(f); }
  struct ares_options o; memset(&o, 0, sizeof o); int mask = ARES_OPT_EVENT_THREAD | ARES_OPT_RESOLVCONF | ARES_OPT_HOSTS_FILE | ARES_OPT_TIMEOUTMS | ARES_OPT_TRIES | ARES_OPT_FLAGS | ARES_OPT_LOOKUPS | ARES_OPT_DOMAINS | ARES_OPT_QUERY_CACHE;
  o.evsys = P.backend == "poll" ? ARES_EVSYS_POLL : (P.backend == "select" ? ARES_EVSYS_SELECT : ARES_EVSYS_EPOLL);
  o.resolvconf_path = (char *)rp.c_str(); o.hosts_path = (char *)hp.c_str(); o.timeout = P.timeout; o.tries = P.tries; o.lookups = (char *)"b"; char *doms[] = {(char *)"dom.test"}; o.domains = doms; o.ndomains = 1; o.qcache_max_ttl = 0;
  unsigned fl = ARES_FLAG_EDNS; if (P.flags.find("STAYOPEN") != std::string::npos) fl |= ARES_FLAG_STAYOPEN; if (P.flags.find("USEVC") != std::string::npos) fl |= ARES_FLAG_USEVC; if (P.flags.find("NOEDNS") != std::string::npos) fl &= ~ARES_FLAG_EDNS; if (P.flags.find("NOROTATE") == std::string::npos && P.flags.find("ROTATE") != std::string::npos) mask |= ARES_OPT_ROTATE; o.flags = (int)fl;
  ares_verif_yield = P.prop == "C11" ? yield_hook : nullptr;
  g_rand_ctr = (uint64_t)P.seed * 0x2545F4914F6CDD1DULL; ares_verif_rand = rand_hook;
  int st = ares_init_options(&R.ch, &o, mask);
  if (st != ARES_SUCCESS) { srv.shutdown(); ares_verif_yield = nullptr; if (st == ARES_ENOTIMP) { stats().count("thr.backend_not_available"); return out; } failo(out, "harness.init-failed", ares_strerror(st)); return out; }
  R.csv = (P.dead ? std::string("127.0.0.1:1,") : std::string()) + "127.0.0.1:" + std::to_string(srv.port);
  ares_set_servers_ports_csv(R.ch, R.csv.c_str());
  // budget for one request (ms): every try on every server at the doubled timeouts, x3, + 2 s
  size_t nserv = P.dead ? 2 : 1; int64_t sum = 0; { int64_t t = std::max(P.timeout, 250); for (size_t i = 0; i < (size_t)P.tries * nserv; i++) { sum += t; if ((i + 1) % nserv == 0) t *= 2; } }
  int64_t budget_ms = sum * 3 * 3 /* search candidates / families */ + 2000 + 8 * (int64_t)P.timeout * 13 / 10 /* slow callbacks of other requests run on the event thread */;

  std::atomic<int> go{0}; std::vector<std::thread> th;
  for (int tid = 0; tid < P.nthreads; tid++) th.emplace_back([&, tid] {
    tl_tid = tid; tl_rng = 0; while (!go.load()) sched_yield();
    int n = 0;
    for (auto &op : P.ops) { if (op.tid != tid) continue; n++;
      std::string name = op.arg.empty() ? ("a" + std::to_string(tid) + "x" + std::to_string(n) + ".test") : op.arg;
      int cbk = op.cb == "reinit" ? 1 : (op.cb == "query" ? 2 : (op.cb == "cancel" ? 3 : (op.cb == "slow" ? 4 : 0)));
      if (op.op == "query" || op.op == "search" || op.op == "gai" || op.op == "ghbn") issue(R, op.op, name, cbk);
      else if (op.op == "cancel") ares_cancel(R.ch);
      else if (op.op == "setservers") { ares_set_servers_ports_csv(R.ch, R.csv.c_str()); R.reconfigs++; }
      else if (op.op == "reinit") { ares_reinit(R.ch); R.reconfigs++; }
      else if (op.op == "active") (void)ares_queue_active_queries(R.ch);
      else if (op.op == "timeout") { struct timeval tv; (void)ares_timeout(R.ch, nullptr, &tv); }
      else if (op.op == "sleep") usleep((useconds_t)std::min(2000000, std::max(0, atoi(op.arg.c_str()))));
      else if (op.op == "waitempty") { uint64_t before = R.seq.load(); int nreq0 = R.nreq.load(); int ms = std::min(3000, std::max(1, atoi(op.arg.c_str())));
        int64_t w0 = now_us(); if (ms >= 800) R.long_waits++;
        ares_status_t ws = ares_queue_wait_empty(R.ch, ms);
        // lost wake-up: the last outstanding request completed while this thread was blocked, nothing was issued afterwards, and the wait still slept on for more than half a second
        if (ws == ARES_ETIMEOUT) { int64_t te = R.t_empty.load(), ti = R.t_last_issue.load(), t1 = now_us(); if (R.pending.load() == 0 && te > w0 && ti < te && t1 - te >= 500000 && R.t_last_issue.load() == ti && R.pending.load() == 0) R.slept_through++; }
        if (ws == ARES_SUCCESS) { R.wait_ok++; for (int i = 0; i < nreq0 && i < MAXREQ; i++) { uint64_t is = R.req[i].issued_seq.load(); if (is != 0 && is < before && R.req[i].calls.load() == 0) R.wait_violation++; } } else R.wait_timeout++; }
    } });
  int64_t t0 = now_us(); go = 1;
  for (auto &t : th) t.join();
  // quiescent phase: nobody issues any more (callbacks may still start follow-up queries; they are in the queue before their parent's callback returns)
  ares_status_t ws = ares_queue_wait_empty(R.ch, (int)std::min<int64_t>(budget_ms * 2, 60000));
  int nreq = std::min(R.nreq.load(), MAXREQ);
  int unfinished = 0; for (int i = 0; i < nreq; i++) if (R.req[i].calls.load() == 0) unfinished++;
  int64_t worst = 0; int worst_i = -1; for (int i = 0; i < nreq; i++) if (R.req[i].calls.load() > 0) { int64_t d = R.req[i].t_done.load() - R.req[i].t_issue.load(); if (d > worst) { worst = d; worst_i = i; } }
  if (ws == ARES_SUCCESS && unfinished) failo(out, P.prop + ".wait-empty-success-with-requests-outstanding", std::to_string(unfinished) + " of " + std::to_string(nreq) + " requests had no callback when ares_queue_wait_empty() returned ARES_SUCCESS after all client threads had finished");
  if (ws != ARES_SUCCESS) failo(out, P.prop + ".request-never-completes", std::to_string(unfinished) + " of " + std::to_string(nreq) + " requests still without a callback " + std::to_string((now_us() - t0) / 1000) + " ms after the start (per-request budget " + std::to_string(budget_ms) + " ms, waited twice that); backend " + P.backend);
  if (R.slept_through.load()) failo(out, "C11.wait-empty-slept-through-the-queue-becoming-empty", std::to_string(R.slept_through.load()) + " ares_queue_wait_empty() calls timed out although the last outstanding request had completed more than 500 ms earlier while they were blocked and nothing was issued since (lost wake-up)");
  if (R.wait_violation.load()) failo(out, "C11.wait-empty-success-with-earlier-request-outstanding", std::to_string(R.wait_violation.load()) + " requests issued before an ares_queue_wait_empty() call had no callback when it returned ARES_SUCCESS");
  // C07, tight form for the simplest shape (one live server, plain queries that all end by timeout, no slow callbacks): a query that never gets an answer must fail
  // after about sum(timeout * 2^round) - the library only ever shortens a round (jitter, learned timeouts) - so one that takes 350 ms longer waited past a deadline
  if (out.ok && P.prop == "C07" && !P.dead && R.cb_slow.load() == 0 && P.tight) { int64_t nominal = 0; { int64_t t = std::max(P.timeout, 250) /* the library never waits less than 250 ms per try */; for (int i = 0; i < P.tries; i++) { nominal += t; t *= 2; } }
    for (int i = 0; i < nreq; i++) if (R.req[i].status.load() == ARES_ETIMEOUT) { int64_t d = (R.req[i].t_done.load() - R.req[i].t_issue.load()) / 1000; stats().count("thr.tight_deadline_checks"); if (d > nominal + 350) { failo(out, "C07.query-outwaits-its-deadline", "request " + std::to_string(i) + " against a silent server completed after " + std::to_string(d) + " ms; its " + std::to_string(P.tries) + " tries of " + std::to_string(std::max(P.timeout, 250)) + " ms (doubling) end after at most " + std::to_string(nominal) + " ms; backend " + P.backend); break; } } }
  if (out.ok && worst > budget_ms * 1000) failo(out, P.prop + ".completion-exceeds-retry-budget", "request " + std::to_string(worst_i) + " took " + std::to_string(worst / 1000) + " ms; budget " + std::to_string(budget_ms) + " ms");
  R.destroyed = false; ares_destroy(R.ch); R.destroyed = true; R.ch = nullptr;
  ares_verif_yield = nullptr; ares_verif_rand = nullptr;
  srv.shutdown();
  // C07, tight form seen from the server: the first retransmission of a query comes one base timeout after its first transmission (round 0 has no jitter);
  // a later one means its deadline passed unnoticed (e.g. the event thread still slept on an older, later deadline)
  if (out.ok && P.prop == "C07" && P.tight && !P.dead) { std::map<std::string, std::vector<int64_t>> rx; { FILE *f = fopen(srv.logpath.c_str(), "r"); if (f) { char nm[128]; long long t; while (fscanf(f, "%127s %lld", nm, &t) == 2) rx[nm].push_back(t); fclose(f); } }
    int64_t base = std::max(P.timeout, 250);
    for (auto &kv : rx) { if (kv.second.size() < 2) continue; int64_t gap = (kv.second[1] - kv.second[0]) / 1000; stats().count("thr.first_retransmission_gaps_checked"); if (gap > base + 200) { failo(out, "C07.query-outwaits-its-deadline", "query " + kv.first + ": first retransmission " + std::to_string(gap) + " ms after the first transmission, its timeout is " + std::to_string(base) + " ms; backend " + P.backend); break; } } }
  for (int i = 0; i < nreq; i++) { int c = R.req[i].calls.load(); if (c > 1) failo(out, P.prop + ".callback-twice", "request " + std::to_string(i) + " got " + std::to_string(c) + " callbacks"); if (c == 0) failo(out, P.prop + ".never-called-back", "request " + std::to_string(i) + " had no callback after ares_destroy"); }
  stats().count("thr.requests", (uint64_t)nreq); stats().count("thr.reconfigurations", (uint64_t)R.reconfigs.load()); stats().count("thr.overlapping_issues", (uint64_t)R.overlap_issues.load()); stats().count("thr.wait_empty_success", (uint64_t)R.wait_ok.load()); stats().count("thr.wait_empty_timeout", (uint64_t)R.wait_timeout.load());
  stats().count("thr.cb_reinit", (uint64_t)R.cb_reinit.load()); stats().count("thr.cb_query", (uint64_t)R.cb_query.load()); stats().count("thr.cb_cancel", (uint64_t)R.cb_cancel.load()); stats().count("thr.cb_slow", (uint64_t)R.cb_slow.load()); stats().count("thr.long_waits", (uint64_t)R.long_waits.load()); stats().count("thr.backend." + P.backend);
  { int to = 0, ok = 0; for (int i = 0; i < nreq; i++) { int s2 = R.req[i].status.load(); if (s2 == ARES_ETIMEOUT) to++; if (s2 == ARES_SUCCESS) ok++; } stats().count("thr.completed_ok", (uint64_t)ok); stats().count("thr.completed_timeout", (uint64_t)to);
    if (P.prop == "C07") out.nontrivial = to > 0; else out.nontrivial = P.nthreads >= 2 && R.overlap_issues.load() > 0 && R.reconfigs.load() > 0; }
  return out;
}

// ------------------------------------------------------------------ generator
static std::string gen_program(const std::string &prop, const unsigned char *data, size_t size) {
  Chooser c(data, size); std::string o = "prop " + prop + "\nseed " + std::to_string(c.u32()) + "\n";
  static const char *be[] = {"epoll", "poll", "select"}; o += std::string("backend ") + be[c.pick(3)] + "\n";
  std::string fl; if (c.chance(1, 2)) fl += "STAYOPEN,"; if (c.chance(1, 5)) fl += "USEVC,"; if (c.chance(1, 4)) fl += "ROTATE,"; if (fl.empty()) fl = "NONE";
  if (prop == "C07" && c.chance(1, 3)) {
    // busy-connection production: a query is in a later retry round (long deadline) when another one is written on the same socket; the new, earlier deadline must be honoured
    int t = 250 + 50 * (int)c.pick(4); o += std::string("opt flags=") + (c.chance(1, 2) ? "STAYOPEN" : "NONE") + " tries=3 timeout=" + std::to_string(t) + "\nanswers 0\ntight 1\n";
    o += "t 0 query a0.test\n"; unsigned n = 1 + c.pick(3);
    for (unsigned i = 1; i <= n; i++) { o += "t 0 sleep " + std::to_string((long)t * (1100 + c.pick(2200))) + "\nt 0 query a" + std::to_string(i) + ".test\n"; }
    return o;
  }
  if (prop == "C07") {
    o += "opt flags=" + fl + " tries=" + std::to_string(1 + c.pick(3)) + " timeout=" + std::to_string(30 + 10 * c.pick(8)) + "\n";
    o += "answers " + std::to_string(c.pick(4)) + "\n";   // the server goes silent after k answers
    if (c.chance(1, 5)) o += "dead 1\n";
    unsigned n = 1 + c.pick(5); static const char *sl[] = {"sleep 1000", "sleep 50000", "sleep 200000", "sleep 20000"};
    for (unsigned i = 0; i < n; i++) { static const char *k[] = {"query", "query", "gai", "search"}; o += std::string("t 0 ") + k[c.pick(4)] + " " + (c.chance(1, 4) ? "d" : "a") + std::to_string(i) + ".test" + (c.chance(1, 3) ? " cb=slow" : "") + "\n"; if (c.chance(2, 3)) o += std::string("t 0 ") + sl[c.pick(4)] + "\n"; }
    return o;
  }
  o += "opt flags=" + fl + " tries=" + std::to_string(1 + c.pick(2)) + " timeout=" + std::to_string(20 + 10 * c.pick(6)) + "\n";
  if (c.chance(1, 4)) o += "answers " + std::to_string(5 + c.pick(30)) + "\n";
  if (c.chance(1, 6)) o += "dead 1\n";
  unsigned nt = 2 + c.pick(5), total = 6 + c.pick(40);
  for (unsigned i = 0; i < total; i++) { unsigned tid = c.pick(nt), k = c.pick(24); std::string l = "t " + std::to_string(tid) + " ";
    static const char *pre[] = {"a", "a", "a", "d", "s", "t", "n"};
    std::string name = std::string(pre[c.pick(7)]) + std::to_string(i) + ".test";
    if (k < 8) l += "query " + name; else if (k < 10) l += "search " + name.substr(0, name.size() - 5); else if (k < 12) l += "gai " + name; else if (k == 12) l += "ghbn " + name;
    else if (k == 13) l += "cancel"; else if (k < 16) l += "reinit"; else if (k == 16) l += "setservers"; else if (k < 19) l += "waitempty " + std::to_string(1 + c.pick(300)); else if (k == 19) l += "active"; else if (k == 20) l += "timeout"; else l += "sleep " + std::to_string(c.pick(3000));
    if (k < 13 && c.chance(1, 5)) { static const char *cb[] = {"reinit", "query", "cancel"}; l += std::string(" cb=") + cb[c.pick(3)]; }
    o += l + "\n"; }
  if (c.chance(1, 3)) {
    // drain production: several threads block in ares_queue_wait_empty() while the last requests complete; every one of them must be woken
    unsigned nw = 2 + c.pick(nt - 1 > 3 ? 3 : nt - 1); o += "t 0 query d" + std::to_string(total) + ".test\n";
    for (unsigned w = 0; w < nw && w < nt; w++) o += "t " + std::to_string(w) + " waitempty " + std::to_string(1500 + c.pick(1000)) + "\n";
  }
  return o;
}

namespace vf {
bool run_case(const std::string &text, std::string &sig, bool &nontrivial) {
  Program P; if (!parse_program(text, P)) { sig = "harness.unparseable-program"; return false; }
  // timing-dependent oracles ("never completes", "exceeds budget") are confirmed by re-running: three misses in a row
  Outcome o;
  // a deadlock burns no CPU, so the CPU-time watchdog cannot see it: wall-clock alarm for the whole case (generous: three runs of a few seconds each)
  signal(SIGALRM, [](int) { static const char m[] = "\nERROR: VERIF-HANG: case exceeded its wall-clock budget (threads blocked)\n"; if (write(2, m, sizeof m - 1) < 0) {} _exit(95); });
  alarm(90);
  struct AlarmOff { ~AlarmOff() { alarm(0); } } alarm_off;
  for (int attempt = 0; attempt < 3; attempt++) { o = run_program(P); if (o.ok) break; bool timing = o.sig.find("never-completes") != std::string::npos || o.sig.find("exceeds-retry-budget") != std::string::npos || o.sig.find("slept-through") != std::string::npos || o.sig.find("outwaits-its-deadline") != std::string::npos; if (!timing || getenv("VERIF_THR_STRICT")) break; stats().count("thr.timing_oracle_retries"); msg("NOTE timing oracle missed on attempt %d: %s\n", attempt + 1, o.detail.substr(0, 300).c_str()); }
  nontrivial = o.nontrivial;
  if (!o.ok) { sig = o.sig; if (!o.detail.empty()) msg("DETAIL %s\n", o.detail.substr(0, 1500).c_str()); return false; }
  return true;
}
}  // namespace vf

int main(int argc, char **argv) {
  signal(SIGPIPE, SIG_IGN);
  ares_library_init(ARES_LIB_INIT_ALL);
  char td[256]; snprintf(td, sizeof td, "%s/build/tmp/thr-%d", VERIF_DIR, (int)getpid()); mkdir((std::string(VERIF_DIR) + "/build/tmp").c_str(), 0755); mkdir(td, 0755); g_tmp = td;
  std::vector<Mode> modes;
  for (const char *p : {"C11", "C07"}) { std::string prop = p; modes.push_back({prop, [prop] { auto bytes = rc::gen::scale(3.0, rc::gen::container<std::vector<uint8_t>>(rc::gen::arbitrary<uint8_t>())); return rc::gen::map(bytes, [prop](std::vector<uint8_t> v) { return gen_program(prop, v.data(), v.size()); }); }}); }
  int rc = rc_harness_main(argc, argv, modes);
  ares_library_cleanup();
  return rc;
}
