// C18: each legacy reply parser vs. the record API on the same bytes.
#pragma once
#include "wire_oracles.hpp"

namespace wire {

inline bool malformed_status(int st) { return st == ARES_EBADRESP || st == ARES_EFORMERR || st == ARES_EBADSTR || st == ARES_EBADNAME; }
inline bool excluded(const char *flag) { static std::string ex = getenv("VERIF_EXCLUDE") ? getenv("VERIF_EXCLUDE") : ""; return ("," + ex + ",").find(std::string(",") + flag + ",") != std::string::npos; }

struct AnsRR { const ares_dns_rr_t *rr; ares_dns_rec_type_t type; ares_dns_class_t klass; };

inline bool c18_fail(Outcome &o, const std::string &clause, const std::string &d = "") { o.sig = "C18." + clause; o.detail = d; return false; }

// status agreement shared by all parsers.  returns: -1 violation, 0 stop (nothing more to compare), 1 continue to compare lists
inline int c18_status(const char *tag, int st, ares_status_t pst, bool have_result, size_t ancount, size_t nmatching, Outcome &o, bool nodata_must_be_enodata_on_empty_answer = true) {
  if (st == ARES_ENOMEM || pst == ARES_ENOMEM) return 0;
  if (pst != ARES_SUCCESS) {
    if (!malformed_status(st)) { c18_fail(o, std::string(tag) + ".accepts-what-record-parser-rejects", std::string("legacy status ") + ares_strerror(st) + ", ares_dns_parse: " + ares_strerror((int)pst)); return -1; }
    if (have_result) { c18_fail(o, std::string(tag) + ".result-on-malformed"); return -1; }
    count("c18.both_reject"); return 0;
  }
  if (malformed_status(st)) { c18_fail(o, std::string(tag) + ".malformed-status-on-wellformed", std::string("legacy status ") + ares_strerror(st) + " for a message ares_dns_parse accepts (answers=" + std::to_string(ancount) + ", of its type=" + std::to_string(nmatching) + ")"); return -1; }
  if (nmatching == 0) {
    // documented no-data status; with a non-empty answer section an empty success is accepted too (docs do not decide it)
    if (st == ARES_ENODATA) { if (have_result) { c18_fail(o, std::string(tag) + ".result-with-enodata"); return -1; } count("c18.nodata"); return 0; }
    if (st == ARES_SUCCESS && ancount > 0) return 1;
    if (st == ARES_SUCCESS && ancount == 0 && nodata_must_be_enodata_on_empty_answer) { c18_fail(o, std::string(tag) + ".success-on-empty-answer"); return -1; }
    if (st == ARES_SUCCESS) return 1;
    c18_fail(o, std::string(tag) + ".unexpected-status", ares_strerror(st)); return -1;
  }
  if (st != ARES_SUCCESS) { c18_fail(o, std::string(tag) + ".records-present-but-status", ares_strerror(st)); return -1; }
  return 1;
}

inline std::string sstr(const char *s) { return s ? std::string(s) : std::string("<NULL>"); }

inline bool check_c18(const Bytes &w, int cap, Outcome &o) {
  const unsigned char *p = (const unsigned char *)w.data(); int alen = (int)w.size();
  RecGuard g; ares_status_t pst = w.empty() ? ARES_EFORMERR : ares_dns_parse(p, w.size(), 0, &g.r);
  std::vector<AnsRR> an; const char *qname = nullptr;
  if (pst == ARES_SUCCESS) {
    ares_dns_record_query_get(g.r, 0, &qname, nullptr, nullptr);
    for (size_t i = 0; i < ares_dns_record_rr_cnt(g.r, ARES_SECTION_ANSWER); i++) { const ares_dns_rr_t *rr = ares_dns_record_rr_get_const(g.r, ARES_SECTION_ANSWER, i); an.push_back({rr, ares_dns_rr_get_type(rr), ares_dns_rr_get_class(rr)}); }
  }
  auto of_type = [&](ares_dns_rec_type_t t, bool chaos_too) { std::vector<const ares_dns_rr_t *> v; for (auto &a : an) if (a.type == t && (a.klass == ARES_CLASS_IN || (chaos_too && a.klass == ARES_CLASS_CHAOS))) v.push_back(a.rr); return v; };
  size_t ancount = an.size();

  // ---- list parsers: compare element by element, in answer order
#define LISTPARSER(tag, fn, T, RTYPE, chaos_ok, COMPARE)                                                                      \
  {                                                                                                                           \
    T *out = nullptr; int st = fn(p, alen, &out);                                                                             \
    std::vector<const ares_dns_rr_t *> want = of_type(RTYPE, false), want2 = of_type(RTYPE, true);                             \
    size_t n = 0; for (T *x = out; x; x = x->next) n++;                                                                       \
    const std::vector<const ares_dns_rr_t *> &W = (chaos_ok && n == want2.size() && n != want.size()) ? want2 : want;          \
    int c = c18_status(tag, st, pst, out != nullptr, ancount, (chaos_ok ? want2.size() : want.size()), o);                     \
    bool good = c >= 0;                                                                                                       \
    if (c == 1) {                                                                                                             \
      if (n != W.size()) good = c18_fail(o, tag ".count", "legacy " + std::to_string(n) + " vs record API " + std::to_string(W.size())); \
      size_t i = 0; for (T *x = out; good && x; x = x->next, i++) { const ares_dns_rr_t *rr = W[i]; COMPARE }                  \
      if (good && n) { count("c18." tag "_compared"); o.nontrivial = true; }                                                  \
    }                                                                                                                         \
    if (out) ares_free_data(out);                                                                                             \
    if (!good) return false;                                                                                                  \
  }
  LISTPARSER("mx", ares_parse_mx_reply, struct ares_mx_reply, ARES_REC_TYPE_MX, false,
             if (x->priority != ares_dns_rr_get_u16(rr, ARES_RR_MX_PREFERENCE)) good = c18_fail(o, "mx.priority"); else if (sstr(x->host) != sstr(ares_dns_rr_get_str(rr, ARES_RR_MX_EXCHANGE))) good = c18_fail(o, "mx.host");)
  LISTPARSER("srv", ares_parse_srv_reply, struct ares_srv_reply, ARES_REC_TYPE_SRV, false,
             if (x->priority != ares_dns_rr_get_u16(rr, ARES_RR_SRV_PRIORITY)) good = c18_fail(o, "srv.priority"); else if (x->weight != ares_dns_rr_get_u16(rr, ARES_RR_SRV_WEIGHT)) good = c18_fail(o, "srv.weight"); else if (x->port != ares_dns_rr_get_u16(rr, ARES_RR_SRV_PORT)) good = c18_fail(o, "srv.port"); else if (sstr(x->host) != sstr(ares_dns_rr_get_str(rr, ARES_RR_SRV_TARGET))) good = c18_fail(o, "srv.host");)
  LISTPARSER("uri", ares_parse_uri_reply, struct ares_uri_reply, ARES_REC_TYPE_URI, false,
             if (x->priority != ares_dns_rr_get_u16(rr, ARES_RR_URI_PRIORITY)) good = c18_fail(o, "uri.priority"); else if (x->weight != ares_dns_rr_get_u16(rr, ARES_RR_URI_WEIGHT)) good = c18_fail(o, "uri.weight"); else if (sstr(x->uri) != sstr(ares_dns_rr_get_str(rr, ARES_RR_URI_TARGET))) good = c18_fail(o, "uri.target"); else if (x->ttl != (int)ares_dns_rr_get_ttl(rr)) good = c18_fail(o, "uri.ttl");)
  LISTPARSER("naptr", ares_parse_naptr_reply, struct ares_naptr_reply, ARES_REC_TYPE_NAPTR, false,
             if (x->order != ares_dns_rr_get_u16(rr, ARES_RR_NAPTR_ORDER)) good = c18_fail(o, "naptr.order"); else if (x->preference != ares_dns_rr_get_u16(rr, ARES_RR_NAPTR_PREFERENCE)) good = c18_fail(o, "naptr.preference");
             else if (sstr((char *)x->flags) != sstr(ares_dns_rr_get_str(rr, ARES_RR_NAPTR_FLAGS))) good = c18_fail(o, "naptr.flags"); else if (sstr((char *)x->service) != sstr(ares_dns_rr_get_str(rr, ARES_RR_NAPTR_SERVICES))) good = c18_fail(o, "naptr.service");
             else if (sstr((char *)x->regexp) != sstr(ares_dns_rr_get_str(rr, ARES_RR_NAPTR_REGEXP))) good = c18_fail(o, "naptr.regexp"); else if (sstr(x->replacement) != sstr(ares_dns_rr_get_str(rr, ARES_RR_NAPTR_REPLACEMENT))) good = c18_fail(o, "naptr.replacement");)
  LISTPARSER("caa", ares_parse_caa_reply, struct ares_caa_reply, ARES_REC_TYPE_CAA, true,
             size_t vl = 0; const unsigned char *vp = ares_dns_rr_get_bin(rr, ARES_RR_CAA_VALUE, &vl); std::string tag = sstr(ares_dns_rr_get_str(rr, ARES_RR_CAA_TAG));
             if (x->critical != (int)ares_dns_rr_get_u8(rr, ARES_RR_CAA_CRITICAL)) good = c18_fail(o, "caa.critical"); else if (x->plength != tag.size() || !x->property || memcmp(x->property, tag.data(), tag.size()) != 0 || x->property[x->plength] != 0) good = c18_fail(o, "caa.property");
             else if (x->length != vl || !x->value || (vl && memcmp(x->value, vp, vl) != 0) || x->value[x->length] != 0) good = c18_fail(o, "caa.value");)
#undef LISTPARSER

  // ---- TXT: one list element per character-string, record_start marks the first chunk of each RR
  for (int ext = 0; ext < 2; ext++) {
    struct ares_txt_ext *oute = nullptr; struct ares_txt_reply *outp = nullptr;
    int st = ext ? ares_parse_txt_reply_ext(p, alen, &oute) : ares_parse_txt_reply(p, alen, &outp);
    std::vector<const ares_dns_rr_t *> w1 = of_type(ARES_REC_TYPE_TXT, false), w2 = of_type(ARES_REC_TYPE_TXT, true);
    struct Chunk { std::string data; bool start; };
    auto chunks = [&](const std::vector<const ares_dns_rr_t *> &W) { std::vector<Chunk> c; for (auto rr : W) { size_t cnt = ares_dns_rr_get_abin_cnt(rr, ARES_RR_TXT_DATA); for (size_t j = 0; j < cnt; j++) { size_t l = 0; const unsigned char *d = ares_dns_rr_get_abin(rr, ARES_RR_TXT_DATA, j, &l); c.push_back({std::string((const char *)d, d ? l : 0), j == 0}); } } return c; };
    std::vector<Chunk> c1 = chunks(w1), c2 = chunks(w2), got;
    if (ext) for (auto *x = oute; x; x = x->next) { got.push_back({std::string((const char *)x->txt, x->length), x->record_start != 0}); if (x->txt[x->length] != 0) { ares_free_data(oute); return c18_fail(o, "txt.not-terminated"); } }
    else for (auto *x = outp; x; x = x->next) { got.push_back({std::string((const char *)x->txt, x->length), false}); }
    int c = c18_status(ext ? "txtext" : "txt", st, pst, (oute || outp), ancount, w2.size(), o);
    bool good = c >= 0;
    if (c == 1) {
      auto same = [&](const std::vector<Chunk> &a) { if (a.size() != got.size()) return false; for (size_t i = 0; i < a.size(); i++) if (a[i].data != got[i].data || (ext && a[i].start != got[i].start)) return false; return true; };
      if (!same(c1) && !same(c2)) good = c18_fail(o, ext ? "txtext.chunks" : "txt.chunks", "legacy " + std::to_string(got.size()) + " chunks vs record API " + std::to_string(c1.size()));
      else if (!got.empty()) { count("c18.txt_compared"); o.nontrivial = true; }
    }
    if (oute) ares_free_data(oute); if (outp) ares_free_data(outp);
    if (!good) return false;
  }

  // ---- SOA: first IN SOA of the answer section
  {
    struct ares_soa_reply *out = nullptr; int st = ares_parse_soa_reply(p, alen, &out);
    std::vector<const ares_dns_rr_t *> W = of_type(ARES_REC_TYPE_SOA, false);
    bool good = true;
    if (pst == ARES_SUCCESS && W.empty() && excluded("soa-nodata")) { count("c18.excluded_known.soa-nodata"); }
    else {
      int c = c18_status("soa", st, pst, out != nullptr, ancount, W.size(), o);
      good = c >= 0;
      if (c == 1) {
        if (W.empty()) { if (out) good = c18_fail(o, "soa.result-without-soa"); }
        else if (!out) good = c18_fail(o, "soa.success-without-result");
        else { const ares_dns_rr_t *rr = W[0];
          if (sstr(out->nsname) != sstr(ares_dns_rr_get_str(rr, ARES_RR_SOA_MNAME))) good = c18_fail(o, "soa.nsname"); else if (sstr(out->hostmaster) != sstr(ares_dns_rr_get_str(rr, ARES_RR_SOA_RNAME))) good = c18_fail(o, "soa.hostmaster");
          else if (out->serial != ares_dns_rr_get_u32(rr, ARES_RR_SOA_SERIAL)) good = c18_fail(o, "soa.serial"); else if (out->refresh != ares_dns_rr_get_u32(rr, ARES_RR_SOA_REFRESH)) good = c18_fail(o, "soa.refresh");
          else if (out->retry != ares_dns_rr_get_u32(rr, ARES_RR_SOA_RETRY)) good = c18_fail(o, "soa.retry"); else if (out->expire != ares_dns_rr_get_u32(rr, ARES_RR_SOA_EXPIRE)) good = c18_fail(o, "soa.expire"); else if (out->minttl != ares_dns_rr_get_u32(rr, ARES_RR_SOA_MINIMUM)) good = c18_fail(o, "soa.minttl");
          else { count("c18.soa_compared"); o.nontrivial = true; } }
      }
    }
    if (out) ares_free_data(out);
    if (!good) return false;
  }

  // ---- NS (hostent: h_name = question name, h_aliases = NSDNAMEs) and PTR (h_aliases = PTR targets, h_name = last)
  {
    struct hostent *h = nullptr; int st = ares_parse_ns_reply(p, alen, &h);
    std::vector<const ares_dns_rr_t *> W = of_type(ARES_REC_TYPE_NS, false);
    int c = c18_status("ns", st, pst, h != nullptr, ancount, W.size(), o); bool good = c >= 0;
    if (c == 1 && !W.empty()) {
      if (!h) good = c18_fail(o, "ns.success-without-result");
      else { size_t n = 0; for (char **a = h->h_aliases; a && *a; a++) n++;
        if (n != W.size()) good = c18_fail(o, "ns.count"); else { for (size_t i = 0; good && i < n; i++) if (sstr(h->h_aliases[i]) != sstr(ares_dns_rr_get_str(W[i], ARES_RR_NS_NSDNAME))) good = c18_fail(o, "ns.name"); }
        if (good && sstr(h->h_name) != sstr(qname)) good = c18_fail(o, "ns.h_name");
        if (good) { count("c18.ns_compared"); o.nontrivial = true; } }
    } else if (c == 1 && h) { size_t n = 0; for (char **a = h->h_aliases; a && *a; a++) n++; if (n) good = c18_fail(o, "ns.invented"); }
    if (h) ares_free_hostent(h);
    if (!good) return false;
  }
  {
    struct hostent *h = nullptr; unsigned char addr[16] = {192, 0, 2, 7, 0, 0, 0, 0, 0, 0, 0, 0, 0, 0, 0, 9}; bool v6 = cap & 1;
    int st = ares_parse_ptr_reply(p, alen, addr, v6 ? 16 : 4, v6 ? AF_INET6 : AF_INET, &h);
    std::vector<const ares_dns_rr_t *> W = of_type(ARES_REC_TYPE_PTR, false);
    int c = c18_status("ptr", st, pst, h != nullptr, ancount, W.size(), o); bool good = c >= 0;
    if (c == 1 && !W.empty()) {
      if (!h) good = c18_fail(o, "ptr.success-without-result");
      else { size_t n = 0; for (char **a = h->h_aliases; a && *a; a++) n++;
        if (n != W.size()) good = c18_fail(o, "ptr.count"); else for (size_t i = 0; good && i < n; i++) if (sstr(h->h_aliases[i]) != sstr(ares_dns_rr_get_str(W[i], ARES_RR_PTR_DNAME))) good = c18_fail(o, "ptr.name");
        if (good) { bool found = false; for (auto rr : W) if (sstr(h->h_name) == sstr(ares_dns_rr_get_str(rr, ARES_RR_PTR_DNAME))) found = true; if (!found) good = c18_fail(o, "ptr.h_name-not-a-ptr-target"); }
        if (good && (h->h_addrtype != (v6 ? AF_INET6 : AF_INET) || h->h_length != (v6 ? 16 : 4) || !h->h_addr_list || !h->h_addr_list[0] || memcmp(h->h_addr_list[0], addr, (size_t)h->h_length) != 0 || h->h_addr_list[1] != nullptr)) good = c18_fail(o, "ptr.address");
        if (good) { count("c18.ptr_compared"); o.nontrivial = true; } }
    }
    if (h) ares_free_hostent(h);
    if (!good) return false;
  }

  // ---- A / AAAA: hostent + addrttl array with caller capacity 'cap' and canaries behind it
  for (int v6 = 0; v6 < 2; v6++) {
    const int CAN = 0x5a; struct ares_addrttl at4[12]; struct ares_addr6ttl at6[12]; memset(at4, CAN, sizeof at4); memset(at6, CAN, sizeof at6);
    int capacity = cap % 8; int n = capacity; struct hostent *h = nullptr;
    int st = v6 ? ares_parse_aaaa_reply(p, alen, &h, at6, &n) : ares_parse_a_reply(p, alen, &h, at4, &n);
    const char *tag = v6 ? "aaaa" : "a";
    std::vector<const ares_dns_rr_t *> W = of_type(v6 ? ARES_REC_TYPE_AAAA : ARES_REC_TYPE_A, false), CN = of_type(ARES_REC_TYPE_CNAME, false);
    bool good = true;
    // capacity: never more elements than offered, nothing written behind them
    if (n < 0 || n > capacity) good = c18_fail(o, std::string(tag) + ".count-exceeds-capacity", std::to_string(n) + " > " + std::to_string(capacity));
    for (int i = capacity; good && i < 12; i++) { const unsigned char *q = v6 ? (const unsigned char *)&at6[i] : (const unsigned char *)&at4[i]; size_t sz = v6 ? sizeof at6[0] : sizeof at4[0]; for (size_t k = 0; k < sz; k++) if (q[k] != CAN) { good = c18_fail(o, std::string(tag) + ".wrote-past-capacity"); break; } }
    if (good) {
      // records "of its type" for the status rule: addresses of this family or aliases
      int c = c18_status(tag, st, pst, h != nullptr, ancount, W.size() + CN.size(), o); good = c >= 0;
      if (c == 1) {
        // addrttls: first min(capacity, |W|) addresses in answer order, ttl = min(record ttl, smallest CNAME ttl)
        int mincn = INT_MAX; for (auto rr : CN) { int t = (int)ares_dns_rr_get_ttl(rr); if (t < mincn) mincn = t; }
        size_t expect_n = std::min<size_t>((size_t)capacity, W.size());
        if (st == ARES_SUCCESS && (size_t)n != expect_n) good = c18_fail(o, std::string(tag) + ".addrttl-count", std::to_string(n) + " vs " + std::to_string(expect_n));
        for (size_t i = 0; good && i < (size_t)n && i < W.size(); i++) {
          int rt = (int)ares_dns_rr_get_ttl(W[i]); int want_ttl = rt > mincn ? mincn : rt;
          if (v6) { if (memcmp(&at6[i].ip6addr, ares_dns_rr_get_addr6(W[i], ARES_RR_AAAA_ADDR), 16) != 0) good = c18_fail(o, "aaaa.addrttl-address"); else if (at6[i].ttl != want_ttl) good = c18_fail(o, "aaaa.addrttl-ttl", std::to_string(at6[i].ttl) + " vs " + std::to_string(want_ttl)); }
          else { if (memcmp(&at4[i].ipaddr, ares_dns_rr_get_addr(W[i], ARES_RR_A_ADDR), 4) != 0) good = c18_fail(o, "a.addrttl-address"); else if (at4[i].ttl != want_ttl) good = c18_fail(o, "a.addrttl-ttl", std::to_string(at4[i].ttl) + " vs " + std::to_string(want_ttl)); }
        }
        if (good && h) {
          size_t na = 0; for (char **a = h->h_addr_list; a && *a; a++) na++;
          if (na != W.size()) good = c18_fail(o, std::string(tag) + ".hostent-address-count", std::to_string(na) + " vs " + std::to_string(W.size()));
          for (size_t i = 0; good && i < na; i++) { const void *want = v6 ? (const void *)ares_dns_rr_get_addr6(W[i], ARES_RR_AAAA_ADDR) : (const void *)ares_dns_rr_get_addr(W[i], ARES_RR_A_ADDR); if (memcmp(h->h_addr_list[i], want, v6 ? 16 : 4) != 0) good = c18_fail(o, std::string(tag) + ".hostent-address"); }
          size_t nal = 0; for (char **a = h->h_aliases; a && *a; a++) nal++;
          if (good && nal != CN.size()) good = c18_fail(o, std::string(tag) + ".alias-count");
          for (size_t i = 0; good && i < nal; i++) if (sstr(h->h_aliases[i]) != sstr(ares_dns_rr_get_name(CN[i]))) good = c18_fail(o, std::string(tag) + ".alias");
          if (good) { std::string hn = sstr(h->h_name); if (CN.empty()) { if (hn != sstr(qname)) good = c18_fail(o, std::string(tag) + ".h_name"); } else { bool found = false; for (auto rr : CN) if (hn == sstr(ares_dns_rr_get_str(rr, ARES_RR_CNAME_CNAME))) found = true; if (CN.size() == 1 && !found) good = c18_fail(o, std::string(tag) + ".h_name"); if (!found) good = c18_fail(o, std::string(tag) + ".h_name-not-in-chain"); } }
          if (good && (h->h_addrtype != (v6 ? AF_INET6 : AF_INET) || h->h_length != (v6 ? 16 : 4))) good = c18_fail(o, std::string(tag) + ".family");
          if (good && (na || nal)) { count(std::string("c18.") + tag + "_compared"); if (!CN.empty()) count("c18.with_cname"); if (CN.size() >= 3) count("c18.cname_chain3"); o.nontrivial = true; }
        } else if (good && st == ARES_SUCCESS && !W.empty()) good = c18_fail(o, std::string(tag) + ".success-without-hostent");
      }
    }
    if (h) ares_free_hostent(h);
    if (!good) return false;
  }
  if (pst == ARES_SUCCESS) count("c18.parser_accepts"); else count("c18.parser_rejects");
  return true;
}

}  // namespace wire
