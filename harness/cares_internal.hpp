// Pulls the library's internal headers into C++ the same way test/ares-test-internal.cc does.
#pragma once
extern "C" {
#undef PACKAGE_NAME
#undef PACKAGE_BUGREPORT
#undef PACKAGE_STRING
#undef PACKAGE_TARNAME
#include "ares_private.h"
#include "ares_inet_net_pton.h"
#include "ares_data.h"
#include "str/ares_strsplit.h"
#include "dsa/ares_htable.h"
#include "dsa/ares_slist.h"
#ifdef CARES_VERIF
extern void (*ares_verif_tvnow)(ares_timeval_t *now);
extern void (*ares_verif_rand)(unsigned char *buf, size_t len);
extern void (*ares_verif_yield)(void);
#endif
}
#include <arpa/inet.h>
#include <netinet/in.h>
#include <sys/socket.h>
#include <netdb.h>
#include <climits>
