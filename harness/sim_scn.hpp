// Simulator part 3: scenario parser / interpreter and the per-property monitors.
#pragma once
#include "sim_run.hpp"

namespace sim {

struct Action { std::string op; std::vector<std::string> a; };

inline std::vector<std::string> split_ws(const std::string &l) { std::vector<std::string> v; std::istringstream s(l); std::string x; while (s >> x) v.push_back(x); return v; }
inline std::map<std::string, std::string> kvs(const std::vector<std::string> &t, size_t from) { std::map<std::string, std::string> m; for (size_t i = from; i < t.size(); i++) { size_t e = t[i].find('='); if (e == std::string::npos) m[t[i]] = ""; else m[t[i].substr(0, e)] = t[i].substr(e + 1); } return m; }

inline unsigned parse_flags(const std::string &s) {
  unsigned f = 0; std::istringstream in(s); std::string x;
  while (std::getline(in, x, ',')) {
    if (x == "USEVC") f |= ARES_FLAG_USEVC; else if (x == "PRIMARY") f |= ARES_FLAG_PRIMARY; else if (x == "IGNTC") f |= ARES_FLAG_IGNTC; else if (x == "NORECURSE") f |= ARES_FLAG_NORECURSE;
    else if (x == "STAYOPEN") f |= ARES_FLAG_STAYOPEN; else if (x == "NOSEARCH") f |= ARES_FLAG_NOSEARCH; else if (x == "NOALIASES") f |= ARES_FLAG_NOALIASES; else if (x == "NOCHECKRESP") f |= ARES_FLAG_NOCHECKRESP;
    else if (x == "EDNS") f |= ARES_FLAG_EDNS; else if (x == "DNS0x20") f |= ARES_FLAG_DNS0x20;
  }
  return f;
}
inline int errno_from(const std::string &s) {
  static const std::map<std::string, int> m = {{"ECONNREFUSED", ECONNREFUSED}, {"ECONNRESET", ECONNRESET}, {"ENETUNREACH", ENETUNREACH}, {"EHOSTUNREACH", EHOSTUNREACH}, {"EMFILE", EMFILE}, {"ENOBUFS", ENOBUFS}, {"EWOULDBLOCK", EWOULDBLOCK}, {"EINTR", EINTR}, {"EAFNOSUPPORT", EAFNOSUPPORT}, {"EACCES", EACCES}, {"EINVAL", EINVAL}, {"ETIMEDOUT", ETIMEDOUT}, {"EADDRNOTAVAIL", EADDRNOTAVAIL}, {"EPIPE", EPIPE}};
  auto it = m.find(s); return it == m.end() ? ECONNREFUSED : it->second;
}
inline int qtype_from(const std::string &s) { if (s == "A") return 1; if (s == "AAAA") return 28; if (s == "TXT") return 16; if (s == "PTR") return 12; if (s == "MX") return 15; if (s == "SRV") return 33; if (s == "ANY") return 255; int v = atoi(s.c_str()); return v > 0 ? v : 1; }

struct RunResult {
  Verdict v; bool nontrivial = false; std::map<std::string, uint64_t> counters;
  // summary used by the metamorphic properties (C20, C09)
  std::vector<std::string> outcome_summary; std::vector<std::string> server_stream;
  std::set<int> enomem_reqs;   // C14: requests that completed with ARES_ENOMEM
};

inline Sim *&cur_sim() { static Sim *p = nullptr; return p; }

struct Scenario {
  Sim s; std::vector<Action> actions; std::string prop;
  std::vector<std::pair<int, std::string>> inject_log; struct ForgedFailure { int req; std::string kind; int rcode; int64_t t; size_t tx_seq; bool had_cookie, tcp; }; std::vector<ForgedFailure> forged_failures; std::map<int, int64_t> last_cookieless; std::vector<std::pair<int64_t, int>> src_changes;
  bool has_faults = false, has_reconfig = false, has_cancel = false, has_inject = false; bool has_other_faults = false;   // other = anything but a hard error on a read
  size_t nlines = 0;

  void parse(const std::string &text) {
    std::istringstream in(text); std::string l;
    while (std::getline(in, l)) {
      if (l.empty() || l[0] == '#') continue;
      std::vector<std::string> t = split_ws(l); if (t.empty()) continue; nlines++;
      const std::string &op = t[0];
      if (op == "seed" && t.size() > 1) s.w.set_seed(strtoull(t[1].c_str(), 0, 10));
      else if (op == "opt") { auto m = kvs(t, 1); Options &o = s.opt;
        for (auto &kv : m) { const std::string &k = kv.first, &v = kv.second;
          if (k == "flags") { o.flags = parse_flags(v); o.flags_set = true; } else if (k == "tries") o.tries = std::max(1, atoi(v.c_str())); else if (k == "timeout") o.timeout = std::max(1, atoi(v.c_str())); else if (k == "maxtimeout") o.maxtimeout = atoi(v.c_str());
          else if (k == "ndots") o.ndots = atoi(v.c_str()); else if (k == "rotate") o.rotate = atoi(v.c_str()); else if (k == "udpmax") o.udpmax = atoi(v.c_str()); else if (k == "qcache") o.qcache = atol(v.c_str());
          else if (k == "lookups") o.lookups = v; else if (k == "domains") { o.domains = v; o.domains_set = true; } else if (k == "failover") { o.failover_chance = atoi(v.c_str()); size_t sl = v.find('/'); if (sl != std::string::npos) o.failover_delay = atoi(v.c_str() + sl + 1); }
          else if (k == "sockstate") o.sockstate = atoi(v.c_str()); else if (k == "pendingwrite") o.pendingwrite = atoi(v.c_str()); else if (k == "nonblock") o.nonblock = atoi(v.c_str()); else if (k == "tfo") o.tfo = atoi(v.c_str());
          else if (k == "ednspsz") o.ednspsz = atoi(v.c_str()); else if (k == "process") o.process = v; else if (k == "c07") o.c07 = atoi(v.c_str()); else if (k == "mixed") o.mixed = atoi(v.c_str()); else if (k == "cnamemod") o.cname_mod = atoi(v.c_str()); else if (k == "asoa") o.asoa = atoi(v.c_str()); else if (k == "nogsn") o.nogsn = atoi(v.c_str()); else if (k == "noempty") s.w.suppress_empty = atoi(v.c_str()) != 0; } }
      else if (op == "servers") { s.server_specs.assign(t.begin() + 1, t.end()); }
      else if (op == "resolv") s.resolv_lines.push_back(l.size() > 7 ? l.substr(7) : "");
      else if (op == "hosts") s.hosts_lines.push_back(l.size() > 6 ? l.substr(6) : "");
      else if (op == "alias") s.alias_lines.push_back(l.size() > 6 ? l.substr(6) : "");
      else if (op == "sortlist") s.sortlist = l.size() > 9 ? l.substr(9) : "";
      else if (op == "weights") { auto m = kvs(t, 1); std::fill(s.w.weights.begin(), s.w.weights.end(), 0); for (auto &kv : m) { int o = outcome_from_name(kv.first); if (o >= 0) s.w.weights[(size_t)o] = std::max(0, atoi(kv.second.c_str())); } }
      else if (op == "rule" && t.size() >= 5) { Rule r; r.server = t[1] == "*" ? -1 : atoi(t[1].c_str()); r.name = ref::lower(t[2]); r.nth = t[3] == "*" ? -1 : atol(t[3].c_str()); int o = outcome_from_name(t[4]); if (o >= 0) { r.outcome = o; s.w.rules.push_back(r); } }
      else if (op == "cookie" && t.size() >= 3) { size_t i = (size_t)atoi(t[1].c_str()) % 8; if (s.w.servers.size() <= i) s.w.servers.resize(i + 1); s.w.servers[i].cookie_mode = t[2]; }
      else if (op == "fail" && t.size() >= 4) { s.w.faults[t[1]][(size_t)std::max(1, atoi(t[2].c_str()))] = errno_from(t[3]); has_faults = true; int e = errno_from(t[3]); if (!(t[1] == "arecvfrom" && (e == ECONNREFUSED || e == ECONNRESET || e == ENETUNREACH || e == EHOSTUNREACH))) has_other_faults = true; }
      else if (op == "chop" && t.size() > 1) { std::istringstream cs(t[1]); std::string x; while (std::getline(cs, x, ',')) s.w.chop.push_back((size_t)std::max(1, atoi(x.c_str()))); }
      else if (op == "partial" && t.size() > 1) { std::istringstream cs(t[1]); std::string x; while (std::getline(cs, x, ',')) s.w.partial.push_back((size_t)std::max(0, atoi(x.c_str()))); }
      else { Action a; a.op = op; a.a.assign(t.begin() + 1, t.end()); actions.push_back(a);
        if (op == "reinit" || op == "setservers") has_reconfig = true; if (op == "cancel") has_cancel = true; if (op == "inject") has_inject = true; if (op == "req") for (auto &x : a.a) if (x.rfind("cb=", 0) == 0 && x.find("cancel") != std::string::npos) has_cancel = true; }
    }
    if (s.server_specs.empty()) s.server_specs.push_back("10.0.0.1");
  }

  // ---------------------------------------------------------------- adversary
  // `what` selects the content of the forged packet: an answer with forged data (default), or a failure reply (servfail / refused / notimp /
  // formerr / nxdomain) - a forged failure must be ignored just as well: it would otherwise end the request, demote the server or strip EDNS
  void inject(const std::string &kind, int reqid, const std::string &what = std::string()) {
    World &w = s.w;
    // newest transmission of this request; the request must still be pending
    auto rit = s.reqs.find(reqid); if (rit == s.reqs.end() || rit->second.calls > 0) { s.notes.push_back("inject skipped: request not live"); return; }
    const Tx *cur = nullptr; for (auto it = w.txs.rbegin(); it != w.txs.rend(); ++it) if (it->req == reqid && it->decodable) { cur = &*it; break; }
    if (!cur) return;
    Tx tx = *cur; std::string forgery = kind; VSock *target = w.sock(tx.fd); Addr from = tx.server >= 0 ? w.servers[(size_t)tx.server].addr : Addr();
    bool x20 = (s.opt.flags & ARES_FLAG_DNS0x20) != 0;
    if (kind == "wrongid") tx.qid = (uint16_t)(tx.qid + 1 + (w.hash("i" + std::to_string(w.txs.size())) % 1000));
    else if (kind == "wrongname") { if (!tx.qname.labels.empty()) tx.qname.labels[0] += "x"; }
    else if (kind == "wrongtype") tx.qtype = tx.qtype == 1 ? 28 : 1;
    else if (kind == "wrongclass") tx.qclass = 3;
    else if (kind == "wrongcase") { bool flipped = false; for (auto &lab : tx.qname.labels) { for (auto &c : lab) if (isalpha((unsigned char)c)) { c = (char)(c ^ 0x20); flipped = true; break; } if (flipped) break; } if (!flipped || !x20 || tx.tcp) { s.notes.push_back("inject wrongcase not applicable"); return; } }
    else if (kind == "wrongsrc") { from.b[from.family == AF_INET ? 3 : 15] ^= 0x5a; if (tx.tcp) return; }
    else if (kind == "wrongsock") { VSock *other = nullptr; for (auto &o : w.socks) if (o.open && o.fd != tx.fd && o.tcp == tx.tcp) other = &o; if (!other) { s.notes.push_back("inject wrongsock: no other socket"); return; } target = other; if (other->server >= 0) from = w.servers[(size_t)other->server].addr; }
    else if (kind == "late") {
      // reply to an earlier transmission of this request that has since been re-sent on another socket / to another server / with another id
      const Tx *old = nullptr; for (auto &t : w.txs) if (t.req == reqid && t.decodable && t.seq != cur->seq && t.qid == cur->qid && t.qname_lower == cur->qname_lower && t.qtype == cur->qtype && t.fd != cur->fd) old = &t;   // same query, since re-sent on another socket
      if (!old) { s.notes.push_back("inject late: no earlier transmission"); return; }
      tx = *old; target = w.sock(old->fd); from = old->server >= 0 ? w.servers[(size_t)old->server].addr : from;
    } else if (kind == "nocookie" || kind == "badclientcookie") {
      if (tx.tcp || !tx.has_cookie || tx.server < 0) { s.notes.push_back("inject cookie: not applicable"); return; }
      if (kind == "nocookie") {
        // a cookie-less reply is only illegitimate once this server has proven cookie support (an accepted reply carried a valid server cookie),
        // and only the first one is certain to fall inside the regression period
        // ... i.e. the regression timer is not running: no cookie-less reply since the last accepted valid-cookie reply
        // (support is proven by an accepted reply only if cookies were still in play for the accepting query: after an EDNS downgrade replies are matched without looking at cookies)
        auto in_play = [&](const Prov &p, int64_t until) { if (p.tx == (size_t)-1 || p.tx >= w.txs.size()) return false; const Tx &t0 = w.txs[p.tx]; const Tx *last = nullptr; for (auto &t2 : w.txs) if (t2.qid == t0.qid && t2.qname_lower == t0.qname_lower && t2.qtype == t0.qtype && t2.t <= until) last = &t2; return last && last->has_cookie && !last->tcp; };
        int64_t last_valid = -1; for (auto &kv : s.reqs) if (kv.second.calls > 0) for (uint32_t ser : kv.second.serials) for (auto &p : w.provs) if (p.serial == ser && p.genuine && p.server == tx.server && p.carried_server_cookie && in_play(p, kv.second.t_end)) last_valid = std::max(last_valid, kv.second.t_end);
        auto lc = last_cookieless.find(tx.server);
        if (last_valid < 0 || (lc != last_cookieless.end() && lc->second >= last_valid)) { s.notes.push_back("inject nocookie: support not proven or regression timer may be running"); return; }
        // (a genuine reply without a cookie - e.g. FORMERR without OPT - starts the timer just as well)
        for (auto &d : w.delivered) if (d.serial && d.t >= last_valid) for (auto &p : w.provs) if (p.serial == d.serial && p.server == tx.server && (!p.carried_server_cookie || !p.cookie_valid)) { s.notes.push_back("inject nocookie: regression timer may be running (cookie-less genuine reply)"); return; }
        last_cookieless[tx.server] = w.now_us;
      } }
    else return;
    if (!target || !target->open) { s.notes.push_back("inject: target socket closed"); return; }
    Prov pv; Tx ftx = tx; std::string saved_mode; bool cookie_forgery = kind == "nocookie" || kind == "badclientcookie";
    if (cookie_forgery && tx.server >= 0) { saved_mode = w.servers[(size_t)tx.server].cookie_mode; w.servers[(size_t)tx.server].cookie_mode = kind == "nocookie" ? "none" : "wrongclient"; }
    int fo = what.empty() ? (int)O_ANSWER : outcome_from_name(what); if (fo != O_SERVFAIL && fo != O_REFUSED && fo != O_NOTIMP && fo != O_FORMERR && fo != O_NXDOMAIN) fo = O_ANSWER;
    if (fo == O_FORMERR && kind == "badclientcookie") fo = O_FORMERR_OPT;   // a FORMERR without OPT carries no cookie that could be wrong
    Bytes reply = w.build_reply(ftx, (Outcome)fo, pv, true, forgery);
    if (cookie_forgery && tx.server >= 0) w.servers[(size_t)tx.server].cookie_mode = saved_mode;
    pv.genuine = false; pv.forgery = forgery; pv.fd = target->fd; pv.txs_at_injection = w.txs.size(); w.provs.push_back(pv);
    w.deliver(*target, reply, from, 0, pv.serial);
    inject_log.push_back({reqid, kind}); s.w.injected++;
    if (fo != O_ANSWER) { int rc = fo == O_SERVFAIL ? 2 : fo == O_REFUSED ? 5 : fo == O_NOTIMP ? 4 : fo == O_FORMERR ? 1 : 3; forged_failures.push_back({reqid, kind, rc, w.now_us, cur->seq, cur->has_cookie, cur->tcp}); }
  }

  // ---------------------------------------------------------------- interpreter
  void run_actions() {
    Sim &S = s;
    for (auto &a : actions) {
      if (S.destroyed) break;
      if (a.op == "req" && a.a.size() >= 3) {
        int id = atoi(a.a[0].c_str()); if (id <= 0 || id >= 9000 || S.reqs.count(id)) continue;
        Req r; r.id = id; r.kind = a.a[1]; r.name = a.a[2];
        for (size_t i = 3; i < a.a.size(); i++) { const std::string &x = a.a[i]; if (x.rfind("cb=", 0) == 0) r.script = x.substr(3); else if (x.rfind("flags=", 0) == 0) r.ai_flags = atoi(x.c_str() + 6); else if (x.rfind("port=", 0) == 0) r.port = (unsigned)atoi(x.c_str() + 5); else if (x == "INET") r.family = AF_INET; else if (x == "INET6") r.family = AF_INET6; else if (x == "UNSPEC") r.family = AF_UNSPEC; else r.qtype = qtype_from(x); }
        S.reqs[id] = r; S.order.push_back(id); S.start(S.reqs[id]);
      } else if (a.op == "step") { std::string what = a.a.empty() ? "" : a.a[0]; if (what == "stale") S.step(true, a.a.size() > 1 ? (size_t)atoi(a.a[1].c_str()) : 0); else S.step(); if (S.opt.c07) S.check_timeout_api(); }
      else if (a.op == "adv" && !a.a.empty()) {
        const std::string &x = a.a[0]; int64_t d = 0;
        if (x.rfind("timeout", 0) == 0) { int64_t h = 0; if (S.ch && S.timeout_hint(h)) { d = h; if (x.size() > 7) d += atoll(x.c_str() + 7); if (d < 0) d = 0; } }
        else { long long v = atoll(x.c_str()); if (x.find("us") != std::string::npos) d = v; else if (x.find("ms") != std::string::npos) d = v * 1000; else d = v * 1000000; }
        if (d > 0 && d < ((int64_t)1 << 55) && S.w.now_us < ((int64_t)1 << 60)) S.w.now_us += d;
      } else if (a.op == "cancel") S.do_cancel();
      else if (a.op == "inject" && a.a.size() >= 2) inject(a.a[0], atoi(a.a[1].c_str()), a.a.size() >= 3 ? a.a[2] : std::string());
      else if (a.op == "reinit") { if (S.ch) { { Sim::LibCall lc(S); ares_reinit(S.ch); } S.apply_servers(S.server_specs); S.reconfig_times.push_back(S.w.now_us); S.reconfig_ticks.push_back(++S.tick); } }
      else if (a.op == "setservers" && !a.a.empty()) {
        // "change" = the set of servers differs (re-ordering the same servers leaves cached answers as valid as before)
        auto norm = [](const std::vector<std::string> &v) { std::set<std::string> o; for (auto &x : v) { Addr ad; if (Addr::parse(x, ad)) o.insert(ad.str()); } return o; };
        bool changed = norm(S.server_specs) != norm(a.a);
        S.server_specs = a.a; S.apply_servers(S.server_specs); if (changed) { S.reconfig_times.push_back(S.w.now_us); S.reconfig_ticks.push_back(++S.tick); } }
      else if (a.op == "cookiemode" && a.a.size() >= 2) { size_t i = (size_t)atoi(a.a[0].c_str()); if (i < S.w.servers.size()) S.w.servers[i].cookie_mode = a.a[1]; }
      else if (a.op == "srcaddr" && a.a.size() >= 2) { size_t i = (size_t)atoi(a.a[0].c_str()); Addr x; if (i < S.w.servers.size() && Addr::parse(a.a[1], x)) { S.w.servers[i].source = x; src_changes.push_back({S.w.now_us, (int)i}); } }
      else if (a.op == "check" && !a.a.empty() && a.a[0] == "timeout") { if (S.ch) S.check_timeout_api(); }
    }
  }

  // ---------------------------------------------------------------- monitors
  bool fail(RunResult &r, const std::string &sig, const std::string &detail) { if (r.v.ok) { r.v.ok = false; r.v.sig = sig; r.v.detail = detail; } return false; }

  void monitor_c01(RunResult &r) {
    Sim &S = s; size_t cbnew = 0, cbcancel = 0;
    for (auto &kv : S.reqs) { const Req &q = kv.second; if (!q.started || !q.accepted) continue;
      if (q.script.find("new") != std::string::npos) cbnew++; if (q.script.find("cancel") != std::string::npos) cbcancel++;
      if (q.calls == 0) fail(r, "C01.never-called-back", "request " + std::to_string(q.id) + " (" + q.kind + " " + q.name + ") got no callback by the time ares_destroy returned");
      if (q.calls > 1) fail(r, "C01.callback-twice", "request " + std::to_string(q.id) + " (" + q.kind + ") completed " + std::to_string(q.calls) + " times");
      if (q.pending_at_destroy && q.calls == 1 && q.status != ARES_EDESTRUCTION) fail(r, "C01.destroy-status", "request " + std::to_string(q.id) + " pending at ares_destroy completed with " + ares_strerror(q.status));
    }
    r.counters["c01.cb_starts_request"] += cbnew; r.counters["c01.cb_cancels"] += cbcancel;
  }

  // ---- C14: after the one refused allocation the allocator is healthy again: nothing started afterwards may report out-of-memory, and the probe request
  //      issued after the scenario must complete (exactly once, like every other request: monitor_c01)
  std::set<int> baseline_enomem;   // (the library also uses ARES_ENOMEM for "does not fit": requests that report it with a healthy allocator are not judged)
  void monitor_c14(RunResult &r) {
    Sim &S = s;
    for (auto &kv : S.reqs) if (kv.second.calls >= 1 && kv.second.status == ARES_ENOMEM) r.enomem_reqs.insert(kv.first);
    if (!S.online.ok && S.online.sig.rfind("C01.", 0) != 0) { r.v = Verdict(); monitor_c01(r); }   // other properties' online oracles assume a healthy allocator
    if (!S.fault_tick) return;
    r.counters["c14.idle_spins_after_fault"] += S.idle_spins;
    r.counters["c14.faults_fired"]++; if (S.fault_pending) r.counters["c14.faults_with_requests_in_flight"]++; if (S.fault_in_cancel) r.counters["c14.faults_inside_cancel"]++;
    for (auto &kv : S.reqs) { const Req &q = kv.second; if (!q.started || !q.accepted || q.calls != 1) continue;
      if (S.fault_closed_tick && q.tick_start > S.fault_closed_tick && q.status == ARES_ENOMEM && !baseline_enomem.count(q.id)) fail(r, "C14.out-of-memory-reported-without-a-failing-allocation", "request " + std::to_string(q.id) + " (" + q.kind + " " + q.name + ") was started after the call in which the single allocation was refused had returned, and still completed with ARES_ENOMEM");
      if (q.id == 9990) r.counters[std::string("c14.probe_status.") + ares_strerror(q.status)]++; }
    if (S.stuck_after_fault && !S.fault_in_cancel) { std::string who; for (auto &kv : S.reqs) if (kv.second.pending_at_destroy && kv.first != 9990) who += std::to_string(kv.first) + " "; fail(r, "C14.request-orphaned-after-the-fault", "requests " + who + "were left pending with no deadline armed and nothing in flight after the refused allocation; only ares_destroy completed them"); }
    { auto it = S.reqs.find(9990); if (it != S.reqs.end() && it->second.pending_at_destroy && !S.astronomic) fail(r, "C14.channel-not-usable-after-the-fault", std::string("a fresh request issued after the refused allocation was still pending when the channel was destroyed (") + (S.stuck ? "no deadline and nothing deliverable" : "step budget exhausted") + ")"); }
    if (S.fault_pending) r.nontrivial = true;
  }

  void monitor_c10(RunResult &r) {
    World &w = s.w;
    if (!w.proto_violations.empty()) fail(r, "C10.call-on-closed-or-unknown-socket", w.proto_violations[0]);
    size_t opened = 0, closed_before_destroy = 0;
    for (auto &k : w.socks) {
      opened++;
      if (k.open) fail(r, "C10.socket-survives-destroy", "descriptor " + std::to_string(k.fd) + (k.tcp ? " (tcp)" : " (udp)") + " still open after ares_destroy");
      if (k.closes > 1) fail(r, "C10.closed-twice", "descriptor " + std::to_string(k.fd));
      if (!k.tcp && s.opt.udpmax > 0 && k.udp_queries > (size_t)s.opt.udpmax) fail(r, "C10.udp-max-queries-exceeded", "descriptor " + std::to_string(k.fd) + " carried " + std::to_string(k.udp_queries) + " queries, limit " + std::to_string(s.opt.udpmax));
      if (s.opt.sockstate) { if (k.announced && k.final_notifications != 1) fail(r, "C10.stop-notification-count", "descriptor " + std::to_string(k.fd) + " was announced and got " + std::to_string(k.final_notifications) + " final (0,0) notifications"); if (!k.announced && k.final_notifications != 0) fail(r, "C10.stop-without-watch", "descriptor " + std::to_string(k.fd)); }
    }
    for (auto &c : w.calls) if (c.call == "aclose") closed_before_destroy++;
    r.counters["c10.sockets_opened"] += opened;
    if (opened >= 2) r.nontrivial = r.nontrivial || prop == "C10";
  }

  // wire queries: (request, lower-cased name, type) -> transmissions
  struct WireQ { std::vector<const Tx *> txs; };
  // (a requeued query keeps its id; a probe copy sent to a failed server is a separate query with its own id and budget)
  std::map<std::string, WireQ> wire_queries() { std::map<std::string, WireQ> m; for (auto &t : s.w.txs) if (t.decodable && t.req >= 0) m[std::to_string(t.req) + "|" + t.qname_lower + "|" + std::to_string(t.qtype) + "|id" + std::to_string(t.qid)].txs.push_back(&t); return m; }

  void monitor_c06(RunResult &r) {
    Sim &S = s; World &w = S.w;
    if (S.stuck) fail(r, "C06.never-completes", "a request is pending, nothing is deliverable and ares_timeout() reports no deadline");
    if (S.budget_exhausted) fail(r, "C06.no-termination-within-budget", "requests still pending after " + std::to_string(S.drain_steps) + " drain steps of virtual time");
    size_t maxservers = std::max<size_t>(1, w.servers.size());
    size_t bound = maxservers * (size_t)S.opt.tries + 1 + 1 + 3 + (S.opt.failover_chance > 0 ? maxservers : 0);
    size_t retries = 0, maxround = 0;
    for (auto &kv : wire_queries()) {
      size_t n = kv.second.txs.size(); if (n > 1) retries++;
      maxround = std::max(maxround, n / maxservers);
      if (n > bound) fail(r, "C06.transmission-bound-exceeded", "wire query " + kv.first + " transmitted " + std::to_string(n) + " times; bound servers*tries+5 = " + std::to_string(bound));
    }
    // a set maximum caps every deadline the library reports
    if (S.opt.maxtimeout > 0) for (auto &o : S.timeout_obs) if (o.has && (o.sec > 4000000000000LL || (int64_t)o.sec * 1000000 + o.usec > (int64_t)S.opt.maxtimeout * 1000)) fail(r, "C06.wait-exceeds-maxtimeout", "ares_timeout() reported " + std::to_string(o.sec) + "s " + std::to_string(o.usec) + "us with maxtimeout " + std::to_string(S.opt.maxtimeout) + "ms");
    // lower bound on the wait of attempts that ended by timeout (only where nothing else can end an attempt)
    if (!has_faults && !has_reconfig && !has_cancel && w.chop.empty() && w.partial.empty()) {
      int64_t cap = S.opt.maxtimeout > 0 ? S.opt.maxtimeout : 5000; std::map<int, bool> server_has_history;
      for (auto &kv : wire_queries()) { auto &v = kv.second.txs;
        for (size_t i = 0; i + 1 < v.size(); i++) { const Tx *a = v[i], *b = v[i + 1];
          if (a->outcome != O_SILENCE || a->tcp) continue;
          bool history = false; for (auto &p : w.provs) if (p.genuine && p.server == a->server && p.t <= a->t && (p.outcome == O_ANSWER || p.outcome == O_NXDOMAIN || p.outcome == O_NODATA || p.outcome == O_NXDOMAIN_SOA || p.outcome == O_NODATA_SOA || p.outcome == O_DUP || p.outcome == O_DELAY || p.outcome == O_EMPTY || p.outcome == O_TC)) history = true;   // (a truncated reply ends the query successfully under ARES_FLAG_IGNTC: its round-trip time is learned like any other)
          int64_t base = history ? 250 : std::min<int64_t>(std::max<int64_t>(S.opt.timeout, 250), cap);
          // another request sharing the socket may legitimately close it on a read error; only silent sockets count
          bool other_traffic = false; for (auto &d : w.delivered) if (d.t >= a->t && d.t <= b->t) other_traffic = true;   // e.g. a malformed packet makes the library drop the socket and requeue everything on it
          if (other_traffic) continue;
          int64_t waited = (b->t - a->t) / 1000;
          r.counters["c06.timeout_waits_checked"]++;
          // time the application spends inside a completion callback is not waiting time the library could have given the attempt: the library
          // reads the clock once per processing call, so a re-send made after a slow callback gets its deadline counted from before the callback
          if (S.slow_total_us > 0 && waited < base) { r.counters["c06.waits_shortened_by_slow_callbacks"]++; continue; }
          if (waited < base) fail(r, "C06.wait-below-base-timeout", "wire query " + kv.first + ": attempt " + std::to_string(i) + " to server " + std::to_string(a->server) + " got no reply and was retried after " + std::to_string(waited) + "ms; base timeout is at least " + std::to_string(base) + "ms");
        } }
    }
    r.counters["c06.retried_queries"] += retries; if (maxround >= 2) r.counters["c06.round2plus"]++; if (maxround >= 6) r.counters["c06.round6plus"]++; if (maxround >= 64) r.counters["c06.round64plus"]++;
    if (prop == "C06" && retries > 0) r.nontrivial = true;
  }

  void monitor_c05(RunResult &r) {
    Sim &S = s; World &w = S.w;
    std::map<uint32_t, const Prov *> bys; for (auto &p : w.provs) bys[p.serial] = &p;
    // A forged *failure* reply must be ignored just like forged data: the request it targets may end with that failure status only if a genuine
    // reply to one of its own transmissions said so.  (Judged for plain queries and for forgeries that are never indistinguishable from the real thing.)
    if (!has_faults && !has_cancel && !has_reconfig) for (auto &ff : forged_failures) {
      auto qi = S.reqs.find(ff.req); if (qi == S.reqs.end() || qi->second.calls != 1) continue; const Req &q = qi->second;
      if (q.kind != "query" && q.kind != "send" && q.kind != "lquery" && q.kind != "lsend") continue;
      bool decidable = ff.kind == "wrongid" || ff.kind == "wrongname" || ff.kind == "wrongtype" || ff.kind == "wrongclass" || ff.kind == "wrongsrc" || ff.kind == "wrongcase" || ((ff.kind == "badclientcookie" || ff.kind == "nocookie") && ff.had_cookie && !ff.tcp);
      if (!decidable) continue;
      int want_status = ff.rcode == 2 ? ARES_ESERVFAIL : ff.rcode == 5 ? ARES_EREFUSED : ff.rcode == 4 ? ARES_ENOTIMP : ff.rcode == 1 ? ARES_EFORMERR : ARES_ENOTFOUND;
      r.counters["c05.forged_failures_judged"]++;
      if (q.status != want_status) continue;
      bool genuine_said_so = false; for (auto &p : w.provs) if (p.genuine && p.tx != (size_t)-1 && p.tx < w.txs.size() && w.txs[p.tx].req == q.id && (p.rcode & 0xf) == ff.rcode) genuine_said_so = true;
      if ((ff.kind == "badclientcookie" || ff.kind == "nocookie")) { const Tx *last = nullptr; for (auto &t : w.txs) if (t.req == q.id && t.seq < q.tx_at_end) last = &t; if (last && (!last->has_cookie || last->tcp)) continue; }
      if (!genuine_said_so) fail(r, "C05.forged-failure-ended-the-request." + ff.kind, "request " + std::to_string(q.id) + " ended with " + ares_strerror(q.status) + "; the only reply with that rcode was a forged " + ff.kind + " packet");
    }
    for (auto &kv : S.reqs) { const Req &q = kv.second; if (q.calls == 0) continue;
      for (uint32_t ser : q.serials) { auto it = bys.find(ser); if (it == bys.end()) { fail(r, "C05.data-from-nowhere", "request " + std::to_string(q.id) + " delivered serial " + std::to_string(ser) + " which no server or adversary ever produced"); continue; }
        const Prov &p = *it->second;
        if (!p.genuine && (p.forgery == "nocookie" || p.forgery == "badclientcookie")) {
          // only a forgery while the request's current transmission carries a cookie (an EDNS downgrade or TCP fallback takes cookies out of play)
          const Tx *last = nullptr; for (auto &t : w.txs) if (t.req == q.id && t.seq < q.tx_at_end) last = &t;
          if (last && (!last->has_cookie || last->tcp)) { r.counters["c05.cookie_forgery_moot"]++; continue; }
        }
        if (!p.genuine && (p.forgery == "wrongsock" || p.forgery == "late") && p.on_current_conn == 1) { r.counters["c05.on_current_connection_moot"]++; continue; }   // arrived on the connection the query was assigned to at that moment: indistinguishable
        if (!p.genuine && p.forgery == "wrongsock") {
          // the simulator only knows where the request was last transmitted, not where it is queued: if the request was (also) written on the
          // target socket before it completed, the packet arrived on its current connection from that server's address and is indistinguishable
          bool on_target = false; for (auto &t : w.txs) if (t.req == q.id && t.fd == p.fd && t.seq < q.tx_at_end) on_target = true;
          // (or partly written: with short writes the request may sit half-sent on that connection when the packet is read)
          for (auto &c : w.calls) if (c.call == "asendto" && c.fd == p.fd && c.rv > 0 && c.t >= p.t && c.t <= q.t_end) on_target = true;
          if (on_target) { r.counters["c05.wrongsock_moot"]++; continue; }
        }
        if (!p.genuine && p.forgery == "late") {
          // a stale reply is indistinguishable once the query (same id) has been written again on the connection the stale reply sits on
          bool back = false; for (auto &t : w.txs) if (t.req == q.id && t.fd == p.fd && t.qid == p.qid && t.seq >= p.txs_at_injection && t.seq < q.tx_at_end) back = true;
          if (back) { r.counters["c05.late_moot"]++; continue; }
        }
        if (!p.genuine) fail(r, "C05.forged-data-delivered." + p.forgery, "request " + std::to_string(q.id) + " (" + q.kind + ") was answered with data from a " + p.forgery + " packet (serial " + std::to_string(ser) + ")");
        else if (!p.cookie_valid) {
          const Tx *last = nullptr; if (p.tx != (size_t)-1 && p.tx < w.txs.size()) { const Tx &t0 = w.txs[p.tx]; for (auto &t : w.txs) if (t.qid == t0.qid && t.qname_lower == t0.qname_lower && t.qtype == t0.qtype && t.seq < q.tx_at_end) last = &t; }
          if (last && (!last->has_cookie || last->tcp)) r.counters["c05.cookie_forgery_moot"]++;   // the current transmission asks for no cookie
          else fail(r, "C05.cookie-invalid-delivered", "request " + std::to_string(q.id) + " accepted a reply whose client cookie does not match the one sent");
        }
        else if (p.tx != (size_t)-1 && w.txs[p.tx].req != q.id && w.txs[p.tx].req != q.parent) {
          // data of another request's answer: only legal through the cache for the very same question
          const Tx &t = w.txs[p.tx]; bool same_q = false; for (auto &t2 : w.txs) if (t2.req == q.id && t2.qname_lower == t.qname_lower && t2.qtype == t.qtype) same_q = true;
          std::string nm = ref::lower(q.name); if (!nm.empty() && nm.back() == '.') nm.pop_back();
          if (!same_q && t.qname_lower.find(nm) == std::string::npos) fail(r, "C05.answer-of-another-question", "request " + std::to_string(q.id) + " got serial " + std::to_string(ser) + " produced for " + t.qname_lower);
        }
      }
    }
    for (auto &e : S.server_events) (void)e;
    r.counters["c05.injected"] += w.injected;
    if (prop == "C05" && w.injected_delivered() > 0) r.nontrivial = true;
  }

  void dump_trace() {
    World &w = s.w;
    for (auto &t : w.txs) vf::msg("TX #%zu t=%lld fd=%d srv=%d %s qid=%u %s type=%u req=%d nth=%zu outcome=%s cookie=%s edns=%d serial=%u\n", t.seq, (long long)t.t, t.fd, t.server, t.tcp ? "tcp" : "udp", t.qid, t.qname_lower.c_str(), t.qtype, t.req, t.nth, t.outcome >= 0 ? kOutcomeNames[t.outcome] : "-", t.has_cookie ? vf::hex(t.cookie).c_str() : "-", t.edns, t.serial);
    for (auto &c : w.calls) vf::msg("CALL t=%lld %s fd=%d rv=%ld errno=%d\n", (long long)c.t, c.call.c_str(), c.fd, c.rv, c.err);
    for (auto &e : w.sockstate_events) vf::msg("SOCKSTATE t=%lld fd=%d r=%d w=%d open=%d\n", (long long)e.t, e.fd, e.r, e.w, (int)e.open);
    for (auto &e : s.server_events) vf::msg("SRVSTATE t=%lld %s %s flags=%d\n", (long long)e.t, e.server.c_str(), e.success ? "ok" : "FAIL", e.flags);
    for (auto &kv : s.reqs) { const Req &q = kv.second; std::string ser; for (auto x : q.serials) ser += std::to_string(x) + ","; vf::msg("REQ %d %s %s calls=%d status=%d(%s) t=%lld..%lld timeouts=%d serials=%s addrs=%zu api=%s\n", q.id, q.kind.c_str(), q.name.substr(0, 60).c_str(), q.calls, q.status, q.status >= 0 ? ares_strerror(q.status) : "-", (long long)q.t_start, (long long)q.t_end, q.timeouts, ser.c_str(), q.addrs.size(), q.api.c_str()); }
    for (auto &n : s.notes) vf::msg("NOTE %s\n", n.c_str());
  }

  // ---- C12: search-list expansion.  Reference written from resolv.conf(5) and the statement.
  std::vector<std::string> ref_candidates(const std::string &name) {
    std::vector<std::string> out; const Options &o = s.opt;
    bool has_dot = name.find('.') != std::string::npos;
    if (!(o.flags & ARES_FLAG_NOALIASES) && !has_dot) for (auto &l : s.alias_lines) { auto t = split_ws(l); if (t.size() >= 2 && ref::lower(t[0]) == ref::lower(name)) { out.push_back(t[1]); return out; } }
    if ((!name.empty() && name.back() == '.') || (o.flags & ARES_FLAG_NOSEARCH)) { out.push_back(name); return out; }
    size_t dots = (size_t)std::count(name.begin(), name.end(), '.'); size_t ndots = o.ndots >= 0 ? (size_t)o.ndots : 1;
    std::vector<std::string> doms; if (o.domains_set) { std::istringstream ds(o.domains); std::string d; while (std::getline(ds, d, ',')) if (!d.empty()) doms.push_back(d); }
    if (dots >= ndots) out.push_back(name);
    for (auto &d : doms) out.push_back(d == "." ? name + "." : name + "." + d);
    if (dots < ndots) out.push_back(name);
    return out;
  }
  static std::string wire_key(const std::string &presentation) { ref::Name n; if (!ref::unescape_name(presentation, n)) return "?unparseable?"; return ref::lower(ref::escape_name(n)); }

  void monitor_c12(RunResult &r) {
    Sim &S = s; World &w = S.w;
    if (has_faults || has_reconfig || has_cancel || has_inject) return;
    bool conn_killed = false; for (auto &t : w.txs) if (t.outcome == O_GARBAGE || t.outcome == O_RESET || t.outcome == O_EOFMID) conn_killed = true;   // a sibling's malformed reply tears down the shared connection
    for (auto &kv : S.reqs) { const Req &q = kv.second; if (q.calls != 1 || q.parent >= 0) continue;
      bool srch = q.kind == "search" || q.kind == "lsearch", addr = q.kind == "getaddrinfo" || q.kind == "gethostbyname";
      if (!srch && !addr) continue;
      std::string nm = q.name; { std::string low = ref::lower(nm); if (low == "localhost" || low.find(".localhost") != std::string::npos || low.find(".onion") != std::string::npos) { r.counters["c12.excluded_special_names"]++; continue; } }
      std::vector<std::string> cands = ref_candidates(nm); std::vector<std::string> keys; for (auto &c : cands) keys.push_back(wire_key(c));
      // distinct question names the servers saw for this request, in order of first appearance
      std::vector<std::string> seen; std::map<std::string, std::vector<const Tx *>> by_name;
      for (size_t i = q.tx_at_start; i < w.txs.size(); i++) { const Tx &t = w.txs[i]; if (t.req != q.id || !t.decodable) continue; if (srch && t.qtype != (uint16_t)q.qtype) continue; if (!by_name.count(t.qname_lower)) seen.push_back(t.qname_lower); by_name[t.qname_lower].push_back(&t); }
      if (cands.size() >= 2) { r.counters["c12.requests_with_2plus_candidates"]++; if (prop == "C12") r.nontrivial = true; }
      std::string ctx = "request " + std::to_string(q.id) + " (" + q.kind + " \"" + nm.substr(0, 80) + "\"): expected candidates ["; for (auto &k : keys) ctx += k.substr(0, 60) + " "; ctx += "], servers saw ["; for (auto &x : seen) ctx += x.substr(0, 60) + " "; ctx += "]";
      // order: what was asked is a prefix of the prescribed list
      if (seen.size() > keys.size()) { fail(r, "C12.more-names-than-candidates", ctx); continue; }
      bool prefix = true; for (size_t i = 0; i < seen.size(); i++) if (seen[i] != keys[i]) prefix = false;
      if (!prefix) { fail(r, "C12.candidate-order", ctx); continue; }
      r.counters["c12.orders_checked"]++;
      // address lookups walk the same list (host_callback / next_lookup); with one family there is one query per candidate and the stop rule applies unchanged.
      // (their final status follows getaddrinfo's own rules and is not judged here)
      if (!srch && q.family == AF_UNSPEC) continue;
      // stop rule and final status, for plain searches where each candidate got exactly one decisive reply
      bool simple = !conn_killed && S.opt.tries == 1 && w.servers.size() == 1 && q.timeouts == 0 && q.status != ARES_ETIMEOUT; for (auto &x : by_name) if (x.second.size() != 1) simple = false;   // (a timeout is the application advancing the clock past a deadline before reading the reply)
      if (!simple) continue;
      bool any_nodata = false; int expect_status = -2; size_t expect_n = keys.size(); bool undecided = false; int last = ARES_ENOTFOUND;
      for (size_t i = 0; i < keys.size(); i++) {
        if (i >= seen.size()) { if (expect_n == keys.size()) { /* a candidate was not asked although nothing stopped the search: could be unencodable */ undecided = true; } break; }
        const Tx *t = by_name[keys[i]][0]; int oc = t->outcome; bool single_label = keys[i].find('.') == std::string::npos;
        if (oc == O_ANSWER || oc == O_DUP || oc == O_EMPTY) { expect_status = ARES_SUCCESS; expect_n = i + 1; break; }
        else if (oc == O_NXDOMAIN || oc == O_NXDOMAIN_SOA) last = ARES_ENOTFOUND;
        else if (oc == O_NODATA || oc == O_NODATA_SOA) { any_nodata = true; last = ARES_ENODATA; }
        else if (oc == O_SERVFAIL || oc == O_REFUSED) { if (single_label) { undecided = true; break; } expect_status = oc == O_SERVFAIL ? ARES_ESERVFAIL : ARES_EREFUSED; expect_n = i + 1; break; }
        else { undecided = true; break; }   // silence, formerr, tc ...: not part of the stated stop rule
      }
      if (undecided) { r.counters["c12.stop_rule_undecided"]++; continue; }
      if (expect_status == -2) expect_status = any_nodata ? ARES_ENODATA : last;
      if (seen.size() != expect_n) { fail(r, "C12.stop-rule", ctx + "; expected the search to ask exactly " + std::to_string(expect_n) + " candidates"); continue; }
      if (!srch) { r.counters["c12.stop_rules_checked_addr"]++; continue; }
      if (q.status != expect_status) { fail(r, "C12.final-status", ctx + "; final status " + ares_strerror(q.status) + ", expected " + ares_strerror(expect_status)); continue; }
      r.counters["c12.stop_rules_checked"]++;
    }
  }

  // ---- C13: address lookups return exactly the addresses the answers carry
  void monitor_c13(RunResult &r) {
    Sim &S = s; World &w = S.w;
    std::map<uint32_t, const Prov *> bys; for (auto &p : w.provs) bys[p.serial] = &p;
    auto keyname = [](std::string n) { n = ref::lower(n); if (!n.empty() && n.back() == '.') n.pop_back(); return n; };
    for (auto &kv : S.reqs) { const Req &q = kv.second; if (q.calls != 1 || q.parent >= 0) continue;
      std::string ctx = "request " + std::to_string(q.id) + " (" + q.kind + " " + q.name.substr(0, 60) + ")";
      if (q.kind == "getaddrinfo" || q.kind == "gethostbyname" || q.kind == "hostsfile") {
        if (q.status != ARES_SUCCESS && q.status != ARES_ECANCELLED && q.status != ARES_EDESTRUCTION && !has_faults && !has_cancel && !has_inject && !has_reconfig && S.opt.tries == 1 && w.servers.size() == 1 && q.timeouts == 0 && w.chop.empty() && w.partial.empty()) {
          // one server, one try, no faults: every sub-query got exactly one reply.  If one of them was an answer carrying addresses of a requested family, those addresses are the result
          bool killed = false; for (auto &t : w.txs) if (t.outcome == O_GARBAGE || t.outcome == O_RESET || t.outcome == O_EOFMID || t.outcome == O_TC || t.outcome == O_DELAY || t.outcome == O_SILENCE || t.outcome == O_BADCOOKIE || t.outcome == O_FORMERR || t.outcome == O_FORMERR_OPT) killed = true;
          if (!killed) for (size_t i = q.tx_at_start; i < q.tx_at_end && i < w.txs.size(); i++) { const Tx &t = w.txs[i]; if (t.req != q.id || !t.decodable || !t.serial) continue; auto it = bys.find(t.serial); if (it == bys.end() || !it->second->genuine || it->second->tc || (it->second->rcode & 0xfff) != 0) continue; bool has = false; for (auto &ad : it->second->addrs) if (q.family == AF_UNSPEC || ad.first == q.family) has = true;
            if (has && (t.outcome == O_ANSWER || t.outcome == O_DUP)) { fail(r, "C13.accepted-addresses-dropped", ctx + " ended with " + ares_strerror(q.status) + " although the answer to " + t.qname_lower + " type " + std::to_string(t.qtype) + " carried addresses of the requested family"); break; } }
        }
        if (q.status != ARES_SUCCESS) continue;
        std::multiset<std::string> got; for (auto &a : q.addrs) got.insert(std::to_string(a.family) + ":" + vf::hex(a.addr));
        if (!q.serials.empty()) {
          // from DNS answers: union of the A/AAAA records of the accepted answers, restricted to the requested family
          std::multiset<std::string> want; std::map<std::string, uint32_t> want_ttl;
          int fam_seen4 = 0, fam_seen6 = 0;
          for (uint32_t ser : q.serials) { auto it = bys.find(ser); if (it == bys.end() || !it->second->genuine) continue; const Prov &p = *it->second; for (size_t i = 0; i < p.addrs.size(); i++) { int f = p.addrs[i].first; if (q.family == AF_INET && f != AF_INET) continue; if (q.family == AF_INET6 && f != AF_INET6) continue; want.insert(std::to_string(f) + ":" + vf::hex(p.addrs[i].second)); want_ttl[std::to_string(f) + ":" + vf::hex(p.addrs[i].second)] = p.addr_ttls[i]; if (f == AF_INET) fam_seen4++; else fam_seen6++; } }
          { std::set<std::string> qn; for (uint32_t ser : q.serials) { auto it = bys.find(ser); if (it != bys.end() && it->second->genuine && !it->second->addrs.empty()) qn.insert(it->second->qname_lower); } if (qn.size() > 1) { std::string l; for (auto &x : qn) l += x + " "; fail(r, "C13.addresses-from-several-candidates", ctx + ": the result mixes addresses of answers for different candidate names: " + l); } }
          for (auto &a : q.addrs) { if (q.family == AF_INET && a.family != AF_INET) fail(r, "C13.wrong-family-returned", ctx + " asked for IPv4 and got an address of family " + std::to_string(a.family)); if (q.family == AF_INET6 && a.family != AF_INET6) fail(r, "C13.wrong-family-returned", ctx + " asked for IPv6 and got an address of family " + std::to_string(a.family)); }
          if (q.kind == "gethostbyname") {
            // a hostent holds one family: exactly the answers of one of the families present
            std::multiset<std::string> w4, w6; for (auto &x : want) (x[0] == '2' && x[1] == ':' ? w4 : w6).insert(x);
            if (got != w4 && got != w6 && got != want) fail(r, "C13.hostent-addresses-differ", ctx + ": hostent has " + std::to_string(got.size()) + " addresses, answers carry " + std::to_string(w4.size()) + " IPv4 / " + std::to_string(w6.size()) + " IPv6");
          } else {
            if (got != want) { std::string d; for (auto &x : want) if (!got.count(x)) { d = "missing " + x; break; } if (d.empty()) for (auto &x : got) if (want.count(x) < got.count(x)) { d = "extra or duplicated " + x; break; } fail(r, "C13.addrinfo-addresses-differ", ctx + ": " + d + " (result " + std::to_string(got.size()) + ", answers " + std::to_string(want.size()) + ")"); }
            for (auto &a : q.addrs) { if (a.port != q.port) fail(r, "C13.port", ctx + ": node port " + std::to_string(a.port) + ", asked " + std::to_string(q.port)); auto it = want_ttl.find(std::to_string(a.family) + ":" + vf::hex(a.addr)); if (it != want_ttl.end() && S.opt.qcache <= 0 && a.ttl != (int)it->second) fail(r, "C13.ttl", ctx + ": node ttl " + std::to_string(a.ttl) + ", record ttl " + std::to_string(it->second)); }
          }
          r.counters["c13.dns_results_checked"]++; if (q.addrs.size() >= 2 && prop == "C13") r.nontrivial = true; if (!q.cnames.empty() && prop == "C13") { r.nontrivial = true; r.counters["c13.with_cname_chain"]++; }
        } else if (!q.addrs.empty()) {
          // no server data involved: hosts file, literal, or loopback rule
          std::string k = keyname(q.name); std::multiset<std::string> hosts; bool in_hosts = false;
          for (auto &l : S.hosts_lines) { auto t = split_ws(l); if (t.size() < 2) continue; for (size_t i = 1; i < t.size(); i++) if (keyname(t[i]) == k) { Addr a; if (Addr::parse(t[0], a)) { in_hosts = true; if ((q.family == AF_INET && a.family != AF_INET) || (q.family == AF_INET6 && a.family != AF_INET6)) continue; hosts.insert(std::to_string(a.family) + ":" + vf::hex(Bytes((const char *)a.b, a.family == AF_INET ? 4 : 16))); } } }
          Addr lit; bool literal = Addr::parse(q.name, lit);
          if (literal) {
            // a numeric host name: exactly that address, and only if it is of the requested family
            std::string want = std::to_string(lit.family) + ":" + vf::hex(Bytes((const char *)lit.b, lit.family == AF_INET ? 4 : 16));
            for (auto &a : q.addrs) { if ((q.family == AF_INET && a.family != AF_INET) || (q.family == AF_INET6 && a.family != AF_INET6)) fail(r, "C13.wrong-family-returned", ctx + ": literal " + q.name + " looked up with family " + std::to_string(q.family) + " returned an address of family " + std::to_string(a.family)); }
            if (got.size() != 1 || *got.begin() != want) fail(r, "C13.literal-address-differs", ctx + ": literal " + q.name + " returned " + std::to_string(got.size()) + " addresses" + (got.empty() ? "" : ", first " + *got.begin()));
            r.counters["c13.literals_checked"]++;
          }
          bool lh = k == "localhost" || (k.size() > 10 && k.compare(k.size() - 10, 10, ".localhost") == 0);
          if (lh && !literal) {
            // loopback rule (RFC 6761) on top of the hosts file: requested family only, every address is a loopback address or one the hosts file lists, none twice
            std::set<std::string> listed; for (auto &l : S.hosts_lines) { auto t = split_ws(l); Addr a; if (t.size() >= 2 && Addr::parse(t[0], a)) listed.insert(std::to_string(a.family) + ":" + vf::hex(Bytes((const char *)a.b, a.family == AF_INET ? 4 : 16))); }
            const std::string lo4 = std::to_string(AF_INET) + ":" + vf::hex(Bytes("\x7f\x00\x00\x01", 4)), lo6 = std::to_string(AF_INET6) + ":" + vf::hex(Bytes(15, '\0') + Bytes(1, '\x01'));
            for (auto &a : q.addrs) if ((q.family == AF_INET && a.family != AF_INET) || (q.family == AF_INET6 && a.family != AF_INET6)) fail(r, "C13.wrong-family-returned", ctx + ": loopback name looked up with family " + std::to_string(q.family) + " returned an address of family " + std::to_string(a.family));
            for (auto &x : got) { if (x != lo4 && x != lo6 && !listed.count(x)) fail(r, "C13.loopback-address-invented", ctx + ": " + x); if (got.count(x) > 1) { fail(r, "C13.loopback-address-duplicated", ctx + ": " + x + " returned " + std::to_string(got.count(x)) + " times"); break; } }
            r.counters["c13.loopback_results_checked"]++;
          }
          if (!in_hosts && !literal && !lh) fail(r, "C13.addresses-from-nowhere", ctx + ": " + std::to_string(q.addrs.size()) + " addresses returned although no answer was accepted, the name is not in the hosts file, is not a literal and is not a loopback name");
          if (in_hosts && !literal && !lh) {
            // c-ares documents that related hosts-file lines (sharing a name or an address) are merged into one entry:
            // lower bound = addresses on lines naming the host, upper bound = addresses of the merged (transitively related) lines
            std::set<std::string> names{k}, ips; std::multiset<std::string> closure; bool grew = true;
            while (grew) { grew = false; for (auto &l : S.hosts_lines) { auto t = split_ws(l); if (t.size() < 2) continue; bool rel = ips.count(t[0]) > 0; for (size_t i = 1; i < t.size(); i++) if (names.count(keyname(t[i]))) rel = true; if (!rel) continue; if (ips.insert(t[0]).second) grew = true; for (size_t i = 1; i < t.size(); i++) if (names.insert(keyname(t[i])).second) grew = true; } }
            for (auto &ip : ips) { Addr a; if (!Addr::parse(ip, a)) continue; if ((q.family == AF_INET && a.family != AF_INET) || (q.family == AF_INET6 && a.family != AF_INET6)) continue; closure.insert(std::to_string(a.family) + ":" + vf::hex(Bytes((const char *)a.b, a.family == AF_INET ? 4 : 16))); }
            std::set<std::string> lower(hosts.begin(), hosts.end()), gotset(got.begin(), got.end());
            for (auto &x : got) if (!closure.count(x)) fail(r, "C13.hosts-file-address-invented", ctx + ": " + x + " is not an address of this host (or of a related line) in the hosts file");
            if (q.kind == "getaddrinfo") { for (auto &x : lower) if (!gotset.count(x)) fail(r, "C13.hosts-file-address-dropped", ctx + ": " + x + " is listed for this name and requested family in the hosts file but missing from the result"); for (auto &x : gotset) if (got.count(x) > 1) fail(r, "C13.hosts-file-address-duplicated", ctx + ": " + x); }
            r.counters["c13.hosts_results_checked"]++;
          }
        }
      } else if (q.kind == "gethostbyaddr" || q.kind == "getnameinfo") {
        // the question must be exactly the reverse-map name of the address
        Bytes a = S.req_addr(q); std::string want;
        if (a.size() == 4) want = std::to_string((unsigned char)a[3]) + "." + std::to_string((unsigned char)a[2]) + "." + std::to_string((unsigned char)a[1]) + "." + std::to_string((unsigned char)a[0]) + ".in-addr.arpa";
        else { static const char *hx = "0123456789abcdef"; for (int i = 15; i >= 0; i--) { want += hx[(unsigned char)a[(size_t)i] & 15]; want += '.'; want += hx[((unsigned char)a[(size_t)i] >> 4) & 15]; want += '.'; } want += "ip6.arpa"; }
        for (size_t i = q.tx_at_start; i < q.tx_at_end && i < w.txs.size(); i++) { const Tx &t = w.txs[i]; if (t.req != q.id || !t.decodable || t.qtype != ref::T_PTR) continue; if (t.qname_lower != want) fail(r, "C13.reverse-name", ctx + ": asked the server for " + t.qname_lower + ", the reverse-map name is " + want); r.counters["c13.reverse_names_checked"]++; }
        if (q.status == ARES_SUCCESS && !q.serials.empty()) { std::set<std::string> targets; for (uint32_t ser : q.serials) { auto it = bys.find(ser); if (it != bys.end() && it->second->genuine) for (auto &n : it->second->ptr_names) targets.insert(ref::lower(n)); }
          if (!q.canon.empty() && !targets.count(ref::lower(q.canon))) fail(r, "C13.reverse-result-not-a-ptr-target", ctx + ": returned " + q.canon);
          if (q.kind == "gethostbyaddr") for (auto &n : q.names) if (!targets.count(ref::lower(n))) fail(r, "C13.reverse-alias-not-a-ptr-target", ctx + ": alias " + n); }
      }
    }
  }

  // ---- C09: server selection follows the failover policy.  Reference model fed by the public server-state callback stream.
  void monitor_c09(RunResult &r) {
    Sim &S = s; World &w = S.w;
    if ((has_faults && has_other_faults) || has_cancel || has_inject || S.server_sets.empty()) return;   // hard read errors are connection-level failures the policy speaks about; other socket faults are not modelled
    if (S.opt.flags & ARES_FLAG_PRIMARY) return;
    // "each fresh attempt goes to a server with the fewest consecutive failures": with servers configured there always is such a server, however many failures it has
    for (auto &kv : S.reqs) { const Req &q = kv.second; if (q.calls != 1 || q.status != ARES_ENOSERVER) continue;
      const Sim::ServerSet *cur = nullptr; for (auto &ss : S.server_sets) if (ss.ev < q.ev_end) cur = &ss;
      if (cur && !cur->list.empty()) fail(r, "C09.no-server-chosen-although-servers-are-configured", "request " + std::to_string(q.id) + " (" + q.kind + " " + q.name.substr(0, 40) + ") ended with ARES_ENOSERVER while " + std::to_string(cur->list.size()) + " servers are configured (every one of them may have failures; the least-failed one is still to be tried)"); }
    // merge the observable streams into one order
    struct Ev { uint64_t ev; int kind; size_t idx; };   // 0 server-set, 1 server-state, 2 transmission
    std::vector<Ev> evs; for (size_t i = 0; i < S.server_sets.size(); i++) evs.push_back({S.server_sets[i].ev, 0, i}); for (size_t i = 0; i < S.server_events.size(); i++) evs.push_back({S.server_events[i].ev, 1, i}); for (size_t i = 0; i < w.txs.size(); i++) evs.push_back({w.txs[i].ev, 2, i});
    // 3 = a hard error reported by a read on a UDP socket: a failure of that server, which must be counted before the queries that were on the connection are sent again
    for (size_t i = 0; i < w.calls.size(); i++) { const SockCall &cl = w.calls[i]; if (cl.call == "arecvfrom" && cl.rv < 0 && (cl.err == ECONNREFUSED || cl.err == ECONNRESET || cl.err == ENETUNREACH || cl.err == EHOSTUNREACH)) evs.push_back({cl.ev, 3, i}); }
    std::map<std::string, uint64_t> awaiting_demotion;   // server -> event of the read error not yet followed by a failure notification
    std::sort(evs.begin(), evs.end(), [](const Ev &a, const Ev &b) { return a.ev < b.ev; });
    std::vector<std::string> cfg; std::map<std::string, size_t> fails; std::map<std::string, int64_t> failed_at;
    std::map<int, uint16_t> main_qid; std::map<std::string, const Tx *> last_tx_of_qid; std::map<std::string, size_t> outstanding_probe;
    size_t checked = 0, after_failure = 0, probes = 0;
    std::set<int> tcp_reqs; for (auto &t : w.txs) if (t.tcp && t.req >= 0) tcp_reqs.insert(t.req);
    auto addr_of = [&](const Tx &t) -> std::string { for (auto &k : w.socks) if (k.fd == t.fd) return k.remote.str(); return ""; };
    for (auto &e : evs) {
      if (e.kind == 0) { auto &nl = S.server_sets[e.idx].list; std::map<std::string, size_t> nf; for (auto &x : nl) nf[x] = fails.count(x) ? fails[x] : 0; fails = nf; cfg = nl; continue; }
      if (e.kind == 3) { const SockCall &cl = w.calls[e.idx]; std::string srv; bool udp = false; for (auto &k : w.socks) if (k.fd == cl.fd) { srv = k.remote.str(); udp = !k.tcp; } if (udp && fails.count(srv)) { awaiting_demotion[srv] = cl.ev; r.counters["c09.read_errors_on_udp_sockets"]++; } continue; }
      if (e.kind == 1) { const ServerEv &se = S.server_events[e.idx]; if (!se.success) awaiting_demotion.erase(se.server); if (!fails.count(se.server)) { fail(r, "C09.state-event-for-unconfigured-server", se.server); continue; } if (se.success) fails[se.server] = 0; else { fails[se.server]++; failed_at[se.server] = se.t; } continue; }
      const Tx &t = w.txs[e.idx]; if (!t.decodable || t.req < 0) continue;
      std::string dest = addr_of(t); if (dest.empty()) continue;
      auto rq = S.reqs.find(t.req); if (rq == S.reqs.end()) continue; const Req &q = rq->second;
      bool single = q.kind == "query" || q.kind == "send" || q.kind == "lquery" || q.kind == "lsend"; if (!single) continue;
      if (tcp_reqs.count(t.req)) continue;   // TCP writes happen after the decision (and after later decisions): order on the wire says nothing
      if (!main_qid.count(t.req)) main_qid[t.req] = t.qid;
      std::string qk = std::to_string(t.req) + "/" + std::to_string(t.qid);
      if (t.qid != main_qid[t.req]) {
        // a probe copy: only to a failed server whose retry delay has passed, one at a time per server, never before the user's own transmission
        { const Tx *pp = last_tx_of_qid.count(qk) ? last_tx_of_qid[qk] : nullptr; last_tx_of_qid[qk] = &t; if (pp && pp->edns && !t.edns) continue; }   // the probe's own EDNS-downgrade resend stays on its server
        probes++; r.counters["c09.probe_copies"]++;
        if (!fails.count(dest) || fails[dest] == 0) fail(r, "C09.probe-to-healthy-server", "request " + std::to_string(t.req) + ": a second copy (id " + std::to_string(t.qid) + ") was sent to " + dest + " which has no recorded failures");
        else if (failed_at.count(dest) && t.t - failed_at[dest] < (int64_t)S.opt.failover_delay * 1000 && S.opt.failover_chance >= 0) fail(r, "C09.probe-before-retry-delay", "probe to " + dest + " " + std::to_string((t.t - failed_at[dest]) / 1000) + "ms after its last failure; retry delay " + std::to_string(S.opt.failover_delay) + "ms");
        if (S.opt.failover_chance == 0) fail(r, "C09.probe-although-disabled", "request " + std::to_string(t.req));
        for (uint32_t ser : q.serials) if (t.serial && ser == t.serial) fail(r, "C09.probe-reply-delivered-to-user", "request " + std::to_string(t.req) + " received the reply to its probe copy");
        continue;
      }
      const Tx *prev = last_tx_of_qid.count(qk) ? last_tx_of_qid[qk] : nullptr; last_tx_of_qid[qk] = &t;
      if (t.tcp) continue;                                     // a TCP write happens after the decision (connect completes later)
      if (prev && prev->edns && !t.edns) continue;             // EDNS downgrade: stays on the same server by design
      if (cfg.empty() || !fails.count(dest)) continue;
      size_t mn = (size_t)-1; for (auto &x : cfg) mn = std::min(mn, fails[x]);
      std::string ctx = "request " + std::to_string(t.req) + " transmission #" + std::to_string(t.seq) + " went to " + dest + " (consecutive failures " + std::to_string(fails[dest]) + "); servers:"; for (auto &x : cfg) ctx += " " + x + "=" + std::to_string(fails[x]);
      checked++; bool any_fail = false; for (auto &x : cfg) if (fails[x]) any_fail = true; if (any_fail && cfg.size() >= 2) after_failure++;
      if (awaiting_demotion.count(dest)) { bool other = false; for (auto &x : cfg) if (x != dest && fails[x] <= fails[dest]) other = true; if (other) { fail(r, "C09.resent-to-the-failed-server-before-it-was-demoted", ctx + "; a read on that server's socket had just failed hard and the failure had not been counted yet"); continue; } }
      if (fails[dest] != mn) { fail(r, "C09.not-a-least-failed-server", ctx); continue; }
      if (!S.opt.rotate) { std::string first; for (auto &x : cfg) if (fails[x] == mn) { first = x; break; } if (dest != first) fail(r, "C09.not-first-in-configuration-order", ctx + "; first least-failed is " + first); }
    }
    // each accepted answer restores the server, each timed-out attempt demotes it
    for (auto &kv : S.reqs) { const Req &q = kv.second; if (q.calls != 1 || q.status != ARES_SUCCESS) continue; for (uint32_t ser : q.serials) for (auto &p : w.provs) if (p.serial == ser && p.genuine && p.tx != (size_t)-1 && !has_reconfig) { const Tx &t = w.txs[p.tx]; if (t.req != q.id) continue; std::string dest = addr_of(t); bool ok = false; for (auto &se : S.server_events) if (se.success && se.server == dest && se.t == q.t_end) ok = true; if (!ok && (q.kind == "query" || q.kind == "send")) fail(r, "C09.success-not-recorded", "request " + std::to_string(q.id) + " was answered by " + dest + " but no success was reported for that server"); } }
    r.counters["c09.selections_checked"] += checked; r.counters["c09.selections_after_failures"] += after_failure;
    if (prop == "C09" && after_failure > 0) r.nontrivial = true;
  }

  // ---- C17: DNS cookies (RFC 7873 client behaviour, restricted to what the statement says)
  void monitor_c17(RunResult &r) {
    Sim &S = s; World &w = S.w;
    if (has_faults || has_reconfig || has_cancel) return;
    for (auto &t : w.txs) if (t.outcome == O_GARBAGE) { r.counters["c17.skipped_garbage_scenarios"]++; return; }   // a malformed datagram makes the library drop the socket with everything read behind it unprocessed
    std::map<uint32_t, const Prov *> bys; for (auto &p : w.provs) bys[p.serial] = &p;
    // which replies did the library accept (a request completed with them), and when
    std::map<uint32_t, int64_t> accepted; for (auto &kv : S.reqs) if (kv.second.calls == 1) for (uint32_t ser : kv.second.serials) accepted[ser] = kv.second.t_end;
    std::map<uint32_t, int64_t> delivered_at; for (auto &d : w.delivered) if (d.serial && !delivered_at.count(d.serial)) delivered_at[d.serial] = d.t;
    size_t nserv = w.servers.size(); size_t proofs = 0, timers = 0;
    // Which replies the library actually processed is not modelled (probe copies, batching and re-sends on the same socket make that fragile).  Two sound bounds are used
    // instead: "delivered" (read from the socket: an upper bound on what can have taught the client something) and "accepted" (a request completed with that very reply: a
    // lower bound - its cookie was certainly validated and stored).  dev = position of the delivery in the event order.
    std::map<uint32_t, uint64_t> dev; for (auto &d : w.delivered) if (d.serial && !dev.count(d.serial)) dev[d.serial] = d.ev;
    // (replies are processed in the order they are read, but a whole batch may be read before the first one is processed: an accepted reply is certainly stored only once
    //  its request has completed - proc = that position in the event order)
    std::map<uint32_t, uint64_t> proc; for (auto &kv : S.reqs) if (kv.second.calls == 1) for (uint32_t ser : kv.second.serials) if (!proc.count(ser) || kv.second.ev_end < proc[ser]) proc[ser] = kv.second.ev_end;
    // ... provided cookies were still in play for the accepting query: after an EDNS downgrade or a switch to TCP the query matches replies without looking at cookies at all
    auto cookie_in_play = [&](const Prov &p) { if (p.tx == (size_t)-1 || p.tx >= w.txs.size() || !proc.count(p.serial)) return false; const Tx &t0 = w.txs[p.tx]; const Tx *last = nullptr; for (auto &t2 : w.txs) if (t2.req == t0.req && t2.qid == t0.qid && t2.ev <= proc[p.serial]) last = &t2; return last && last->has_cookie && !last->tcp; };
    auto surely = [&](const Prov &p) { return proc.count(p.serial) && dev.count(p.serial) && p.genuine && cookie_in_play(p); };
    for (size_t sv = 0; sv < nserv; sv++) {
      Bytes cur_client; int64_t client_since = 0; Addr cur_src; bool have = false; int64_t last_cause = -1;
      for (auto &t : w.txs) { if (t.server != (int)sv || !t.decodable) continue;
        if (t.tcp) { if (t.has_cookie) fail(r, "C17.cookie-sent-over-tcp", "request " + std::to_string(t.req) + " transmission #" + std::to_string(t.seq) + " to server " + std::to_string(sv) + " over TCP carries a COOKIE option"); continue; }
        if (!t.edns || !t.has_cookie) continue;
        if (t.cookie.size() < 8 || (t.cookie.size() > 8 && (t.cookie.size() < 16 || t.cookie.size() > 40))) { fail(r, "C17.malformed-cookie-sent", "cookie option of " + std::to_string(t.cookie.size()) + " bytes"); continue; }
        Bytes client = t.cookie.substr(0, 8), server = t.cookie.substr(8);
        // source address this socket reports
        Addr src; for (auto &k : w.socks) if (k.fd == t.fd) src = k.local; src.port = 0;
        if (have && client != cur_client) {
          // allowed causes: source address change, one day of age, or a reset after the regression / unsupported period: a cookie-less
          // or invalid reply from this server at least 120 s ago
          bool cause = !(src == cur_src) || t.t - client_since >= 86400LL * 1000000;
          // (the library drops its cookie state as soon as a reply shows the server not supporting cookies, and re-learns later; so any such reply
          //  since this client cookie came into use is accepted as a cause - the check is that it is constant while every reply carried a valid cookie)
          for (auto &p : w.provs) if (p.server == (int)sv && delivered_at.count(p.serial) && delivered_at[p.serial] <= t.t && delivered_at[p.serial] >= client_since && (!p.carried_server_cookie || !p.cookie_valid)) cause = true;
          // ... or the regression timer started by an earlier cookie-less reply has run out (no valid cookie reply processed in between to cancel it)
          for (auto &p : w.provs) if (!cause && p.server == (int)sv && delivered_at.count(p.serial) && t.t - delivered_at[p.serial] >= 120LL * 1000000 && (!p.carried_server_cookie || !p.cookie_valid)) { bool cancelled = false; for (auto &p2 : w.provs) if (p2.server == (int)sv && p2.carried_server_cookie && p2.cookie_valid && surely(p2) && dev[p2.serial] > dev[p.serial] && proc[p2.serial] < t.ev) cancelled = true; if (!cancelled) cause = true; }
          if (!cause) fail(r, "C17.client-cookie-changed-without-cause", "server " + std::to_string(sv) + ": client cookie " + vf::hex(cur_client) + " (in use for " + std::to_string((t.t - client_since) / 1000000) + "s) replaced by " + vf::hex(client) + " at transmission #" + std::to_string(t.seq) + " with the same source address");
          else timers++;
        }
        if (!have || client != cur_client) { cur_client = client; client_since = t.t; }
        cur_src = src; have = true;
        // server part echoed = the latest server cookie accepted for this client cookie
        if (!server.empty()) {
          // some delivered reply for this client cookie must have carried it ...
          bool seen = false; const Prov *latest = nullptr; uint64_t le = 0;
          for (auto &p : w.provs) if (p.server == (int)sv && p.carried_server_cookie && p.client_cookie_echoed == client && dev.count(p.serial) && dev[p.serial] < t.ev) { if (p.server_cookie_sent == server) seen = true; if (p.cookie_valid && surely(p) && proc[p.serial] < t.ev && dev[p.serial] >= le) { latest = &p; le = dev[p.serial]; } }
          if (getenv("VERIF_DEBUG")) { for (auto &kv : proc) vf::msg("proc[%u]=%llu dev=%llu\n", kv.first, (unsigned long long)kv.second, (unsigned long long)(dev.count(kv.first) ? dev[kv.first] : 0)); vf::msg("tx #%zu ev=%llu latest=%u\n", t.seq, (unsigned long long)t.ev, latest ? latest->serial : 0); }
          if (!seen) fail(r, "C17.server-cookie-from-nowhere", "server " + std::to_string(sv) + " transmission #" + std::to_string(t.seq) + " echoes server cookie " + vf::hex(server) + " that no reply for this client cookie carried");
          else if (latest && latest->server_cookie_sent != server) {
            // ... and it must not be older than one the client certainly stored: stale only when every delivered reply carrying the echoed value came before a reply that was accepted
            // with a different server cookie for the same client cookie
            bool ok = false; for (auto &p : w.provs) if (p.server == (int)sv && p.carried_server_cookie && p.client_cookie_echoed == client && p.server_cookie_sent == server && dev.count(p.serial) && dev[p.serial] < t.ev && dev[p.serial] > le) ok = true;
            if (!ok) fail(r, "C17.stale-server-cookie-echoed", "server " + std::to_string(sv) + " transmission #" + std::to_string(t.seq) + " echoes " + vf::hex(server) + ", the latest server cookie delivered before it is " + vf::hex(latest->server_cookie_sent));
          }
          proofs++;
        }
      }
      // BADCOOKIE: at most three UDP resends of one query, then TCP
      // (a reply counts only if it was read while its transmission was still the query's latest one)
      std::map<uint32_t, uint64_t> delivered_ev; for (auto &d : w.delivered) if (d.serial && !delivered_ev.count(d.serial)) delivered_ev[d.serial] = d.ev;
      std::map<uint16_t, size_t> bad; for (auto &t : w.txs) if (t.server == (int)sv && !t.tcp && t.outcome == O_BADCOOKIE && delivered_ev.count(t.serial)) { uint64_t next_ev = 0; for (auto &t2 : w.txs) if (t2.qid == t.qid && t2.req == t.req && t2.seq > t.seq) { next_ev = t2.ev; break; } if (next_ev && next_ev < delivered_ev[t.serial]) continue; if (++bad[t.qid] > 3) fail(r, "C17.more-than-three-badcookie-resends", "query id " + std::to_string(t.qid) + " got BADCOOKIE over UDP " + std::to_string(bad[t.qid]) + " times without falling back to TCP"); }
      // a reply lacking a valid cookie is not accepted once support was proven, until the regression period (120 s) has passed
      for (auto &a : accepted) { auto it = bys.find(a.first); if (it == bys.end()) continue; const Prov &p = *it->second; if (!p.genuine || p.server != (int)sv || p.tx == (size_t)-1) continue; const Tx &t = w.txs[p.tx]; if (t.tcp || !t.has_cookie) continue;
        if (p.carried_server_cookie && p.cookie_valid) continue;
        const Tx *last = nullptr; for (auto &t2 : w.txs) if (t2.req == t.req && t2.qid == t.qid && t2.t <= a.second) last = &t2; if (last && (!last->has_cookie || last->tcp)) continue;   // cookies no longer in play for this query
        // was support proven before, and since when have cookie-less replies been arriving?
        // (a request with several sub-queries accepts each answer when it is read, not when the request completes: the cookie-less reply was accepted somewhere between
        //  its delivery and the completion; the proof counts only if it was certainly accepted - its request completed - before that delivery)
        int64_t a_earliest = delivered_at.count(a.first) ? std::min(delivered_at[a.first], a.second) : a.second;
        int64_t proven_at = -1; for (auto &b : accepted) { auto jt = bys.find(b.first); if (jt != bys.end() && jt->second->server == (int)sv && jt->second->carried_server_cookie && jt->second->cookie_valid && b.second < a_earliest && b.second > proven_at) proven_at = b.second; }
        if (proven_at < 0) continue;
        int64_t first_missing = -1; for (auto &p2 : w.provs) if (p2.server == (int)sv && (!p2.carried_server_cookie || !p2.cookie_valid) && delivered_at.count(p2.serial) && delivered_at[p2.serial] >= proven_at && (first_missing < 0 || delivered_at[p2.serial] < first_missing)) first_missing = delivered_at[p2.serial];
        if (first_missing >= 0 && a.second - first_missing >= 120LL * 1000000) { timers++; continue; }
        // a client-cookie rotation (source change, 1 day) also restarts learning
        bool rotated = false; for (auto &sc : src_changes) if (sc.second == (int)sv && sc.first >= proven_at && sc.first <= a.second) rotated = true; if (a.second - proven_at >= 86400LL * 1000000) rotated = true; if (rotated) continue;
        fail(r, "C17.reply-without-valid-cookie-accepted", "server " + std::to_string(sv) + " proved cookie support at t=" + std::to_string(proven_at / 1000000) + "s; a reply without a valid cookie was accepted at t=" + std::to_string(a.second / 1000000) + "s (request " + std::to_string(t.req) + ") only " + std::to_string(first_missing < 0 ? 0 : (a.second - first_missing) / 1000000) + "s after the first such reply");
      }
    }
    // "... are ignored UNTIL the regression period passes": in the simplest shape (one transmission per request, no adversary, no delayed or duplicated replies) the instant
    // the period starts is known exactly - the first cookie-less reply after the last valid one - and a request sent more than 120 s later must be answered by its (cookie-less) reply
    if (!has_inject && S.opt.tries == 1 && nserv == 1) {
      bool simple = true; for (auto &t : w.txs) if (t.outcome == O_DELAY || t.outcome == O_DUP || t.outcome == O_TC || t.outcome == O_BADCOOKIE || t.outcome == O_SILENCE || t.tcp || !t.decodable) simple = false;
      for (auto &kv : S.reqs) { const Req &q = kv.second; if (q.kind != "query" && q.kind != "send" && q.kind != "lquery" && q.kind != "lsend") simple = false; }
      std::map<int, int> ntx; for (auto &t : w.txs) ntx[t.req]++; for (auto &kv : ntx) if (kv.second != 1) simple = false;
      if (simple) {
        // replies in delivery order
        std::vector<const Prov *> seq; for (auto &p : w.provs) if (p.genuine && p.server == 0 && dev.count(p.serial) && p.tx != (size_t)-1) seq.push_back(&p); std::sort(seq.begin(), seq.end(), [&](const Prov *a, const Prov *b) { return dev[a->serial] < dev[b->serial]; });
        bool supported = false; int64_t t0 = -1;
        for (const Prov *p : seq) { const Tx &t = w.txs[p->tx]; bool valid = p->carried_server_cookie && p->cookie_valid;
          if (valid && t.has_cookie) { supported = true; t0 = -1; continue; }
          if (!t.has_cookie) continue;                      // cookies not in play for this exchange
          if (!p->cookie_valid || p->carried_server_cookie) { simple = false; break; }   // a reply with a *wrong* cookie is dropped as spoofed at any time and starts no timer: only truly cookie-less replies are in this clause
          if (!supported) continue;
          if (t0 < 0) { t0 = delivered_at[p->serial]; continue; }
          // a later cookie-less reply: was its query sent after the period had passed?
          if (t.t - t0 >= 121LL * 1000000) { auto rq = S.reqs.find(t.req); if (rq != S.reqs.end() && rq->second.calls == 1 && std::find(rq->second.serials.begin(), rq->second.serials.end(), p->serial) == rq->second.serials.end() && (p->outcome == O_ANSWER)) { fail(r, "C17.cookie-less-reply-still-ignored-after-the-regression-period", "request " + std::to_string(t.req) + " was sent " + std::to_string((t.t - t0) / 1000000) + "s after the server's first cookie-less reply (t=" + std::to_string(t0) + "us); its cookie-less answer was still dropped (status " + ares_strerror(rq->second.status) + ")"); } r.counters["c17.regression_period_expiries_checked"]++; supported = false; t0 = -1; } }
      }
    }
    r.counters["c17.server_cookie_echo_checks"] += proofs; r.counters["c17.timer_crossings"] += timers;
    if (prop == "C17" && proofs > 0 && timers > 0) r.nontrivial = true;
  }

  // ---- C08: soundness of cache hits (a miss is always allowed)
  void monitor_c08(RunResult &r) {
    Sim &S = s; World &w = S.w;
    std::map<uint32_t, const Prov *> bys; for (auto &p : w.provs) bys[p.serial] = &p;
    auto keyname = [](std::string n) { n = ref::lower(n); if (!n.empty() && n.back() == '.') n.pop_back(); return n; };
    // time each reply was accepted (= entered the cache, if at all): completion time of the first request that got it with traffic of its own
    std::map<uint32_t, int64_t> accepted_at; std::map<uint32_t, uint64_t> accepted_tick;
    auto had_traffic = [&](const Req &q) { std::string k = keyname(q.name); for (size_t i = q.tx_at_start; i < q.tx_at_end && i < w.txs.size(); i++) if (w.txs[i].qname_lower == k || w.txs[i].qname_lower.rfind(k + ".", 0) == 0) return true; return false; };
    for (auto &kv : S.reqs) { const Req &q = kv.second; if (q.calls != 1 || !had_traffic(q)) continue; for (uint32_t ser : q.serials) if (!accepted_at.count(ser) || q.tick_end < accepted_tick[ser]) { accepted_at[ser] = q.t_end; accepted_tick[ser] = q.tick_end; } }
    for (auto &kv : S.reqs) { const Req &q = kv.second;
      if (q.calls != 1 || q.serials.empty()) continue;   // (follow-up requests started from callbacks are judged like any other)
      if (q.kind != "query" && q.kind != "send" && q.kind != "lquery" && q.kind != "lsend" && q.kind != "getaddrinfo" && q.kind != "gethostbyname") continue;
      if (had_traffic(q)) { r.counters["c08.answered_with_traffic"]++; continue; }
      // answered without any transmission of its own question: a cache hit
      r.counters["c08.hits"]++;
      std::string k = keyname(q.name);
      for (uint32_t ser : q.serials) { auto it = bys.find(ser); if (it == bys.end()) continue; const Prov &p = *it->second;
        if (!p.genuine) continue;   // C05's business
        std::string ctx = "request " + std::to_string(q.id) + " (" + q.kind + " " + q.name + ") was answered from the cache with the reply (serial " + std::to_string(ser) + ") to " + p.qname_lower + " type " + std::to_string(p.qtype);
        if (S.opt.qcache == 0) fail(r, "C08.hit-with-cache-disabled", ctx);
        if (p.qname_lower != k) fail(r, "C08.hit-for-different-name", ctx);
        bool addr_kind = q.kind == "getaddrinfo" || q.kind == "gethostbyname";
        if (!addr_kind && p.qtype != (uint16_t)q.qtype) fail(r, "C08.hit-for-different-type", ctx + "; asked type " + std::to_string(q.qtype));
        if (addr_kind && p.qtype != 1 && p.qtype != 28) fail(r, "C08.hit-for-different-type", ctx);
        if (p.tc) fail(r, "C08.truncated-reply-replayed", ctx);
        if ((p.rcode & 0xfff) != 0 && (p.rcode & 0xfff) != 3) fail(r, "C08.error-rcode-replayed", ctx + " rcode " + std::to_string(p.rcode));
        // insertion instant = the instant the reply was read from the socket (it is processed within the same call); the accepting request may complete later (getaddrinfo waits for both families)
        int64_t tins; { bool have = false; for (auto &d : w.delivered) if (d.serial == ser) { tins = d.t; have = true; break; } if (!have) { if (!accepted_at.count(ser)) { r.counters["c08.hit_without_known_insert"]++; continue; } tins = accepted_at[ser]; } }
        if (accepted_at.count(ser)) for (uint64_t rt : S.reconfig_ticks) if (rt > accepted_tick[ser] && rt < q.tick_start) fail(r, "C08.hit-across-reconfiguration", ctx + "; the server list was changed / the channel re-initialised in between");
        int64_t age_sec = q.t_start / 1000000 - tins / 1000000;
        // lifetime its own TTLs allow
        int64_t life;
        bool negative = p.addrs.empty() && p.cnames.empty() && p.ttls.empty();
        if (negative) life = p.has_soa ? std::min<int64_t>(p.soa_ttl, p.soa_min) : 0; else life = p.min_ttl;
        if (S.opt.qcache >= 0) life = std::min<int64_t>(life, S.opt.qcache);
        if (age_sec - 1 >= life) fail(r, negative ? "C08.negative-answer-replayed-beyond-soa-lifetime" : "C08.replayed-beyond-ttl", ctx + " " + std::to_string(age_sec) + "s after it was cached; lifetime allowed by its TTLs and the maximum is " + std::to_string(life) + "s");
        if (age_sec > 0) { r.counters["c08.hits_after_time_passed"]++; if (prop == "C08") r.nontrivial = true; }
        // every TTL visible through the API is reduced by the time spent cached (whole-second granularity)
        // (when time passed inside callbacks the library may have stamped the insertion with the earlier instant its processing call began: the TTL may then be reduced by up to that much more)
        int64_t slack = (S.slow_total_us + 999999) / 1000000;
        auto ttl_ok = [&](int64_t got, int64_t orig) { int64_t hi = std::max<int64_t>(0, orig - std::max<int64_t>(0, age_sec - 1)), lo = std::max<int64_t>(0, orig - (age_sec + 1 + slack)); return got >= lo && got <= hi; };
        if (age_sec >= 2) {
          if ((q.api == "dnsrec" || q.api == "bytes") && q.rec_ttls.size() == p.ttls.size()) { for (size_t i = 0; i < p.ttls.size(); i++) if (!ttl_ok(q.rec_ttls[i], p.ttls[i])) { fail(r, "C08.ttl-not-decremented.api=" + q.api, ctx + ": record " + std::to_string(i) + " had TTL " + std::to_string(p.ttls[i]) + ", was cached " + std::to_string(age_sec) + "s, the callback saw " + std::to_string(q.rec_ttls[i])); break; } r.counters["c08.ttl_checks." + q.api]++; }
          if ((q.api == "dnsrec" || q.api == "bytes") && p.has_soa && q.got_soa) { if (!ttl_ok(q.soa_ttl, p.soa_ttl)) fail(r, "C08.ttl-not-decremented.authority", ctx + ": the authority SOA had TTL " + std::to_string(p.soa_ttl) + ", was cached " + std::to_string(age_sec) + "s, the callback saw " + std::to_string(q.soa_ttl)); r.counters["c08.ttl_checks.authority_soa"]++; }
          if (q.api == "addrinfo") { for (auto &a : q.addrs) for (size_t i = 0; i < p.addrs.size(); i++) if (p.addrs[i].second == a.addr && !ttl_ok(a.ttl, p.addr_ttls[i])) { fail(r, "C08.ttl-not-decremented.api=addrinfo", ctx + ": address record had TTL " + std::to_string(p.addr_ttls[i]) + ", was cached " + std::to_string(age_sec) + "s, ai_ttl is " + std::to_string(a.ttl)); break; } r.counters["c08.ttl_checks.addrinfo"]++; }
        }
      }
    }
  }

  RunResult finish() {
    RunResult r; Sim &S = s;
    if (!S.online.ok) r.v = S.online;
    monitor_c01(r);
    if (prop == "C14") { monitor_c14(r); return r; }
    monitor_c10(r);
    if (prop == "C06" || prop == "C07" || prop == "C01") monitor_c06(r);
    monitor_c05(r);
    monitor_c20(r);
    if (prop == "C08" || prop == "C05") monitor_c08(r);
    if (prop == "C12" || prop == "C01") monitor_c12(r);
    if (prop == "C09") monitor_c09(r);
    if (prop == "C17" || prop == "C05") monitor_c17(r);
    if (prop == "C13") monitor_c13(r);
    summarise(r);
    // non-triviality for C01 (DESIGN 5, C01)
    size_t nreq = 0, search2 = 0; for (auto &kv : S.reqs) if (kv.second.started) nreq++;
    std::map<int, std::set<std::string>> cand; for (auto &t : S.w.txs) if (t.req >= 0) cand[t.req].insert(t.qname_lower); for (auto &c : cand) if (c.second.size() >= 2) search2++;
    bool timeouts = false; for (auto &kv : S.reqs) if (kv.second.timeouts > 0 || kv.second.status == ARES_ETIMEOUT) timeouts = true;
    if (prop == "C01" && nreq >= 2 && (r.counters["c01.cb_starts_request"] || r.counters["c01.cb_cancels"] || has_faults || timeouts || search2)) r.nontrivial = true;
    if (prop == "C07" && S.c07_checks > 0) { r.nontrivial = S.c07_multi > 0; r.counters["c07.counterfactual_checks"] += S.c07_checks; r.counters["c07.checks_with_2plus_deadlines"] += S.c07_multi; }
    r.counters["sim.idle_spins"] += S.idle_spins;
    r.counters["sim.requests"] += nreq; r.counters["sim.transmissions"] += S.w.txs.size(); r.counters["sim.sockets"] += S.w.socks.size(); r.counters["sim.steps"] += S.steps + S.drain_steps;
    if (has_faults) r.counters["sim.with_socket_faults"]++; if (has_cancel) r.counters["sim.with_cancel"]++; if (has_reconfig) r.counters["sim.with_reconfig"]++; if (search2) r.counters["sim.search_2plus_candidates"]++; if (timeouts) r.counters["sim.with_timeouts"]++;
    for (auto &t : S.w.txs) if (t.tcp) { r.counters["sim.tcp_transmissions"]++; break; }
    return r;
  }

  // order-independent description of what each request got and what each server saw
  void summarise(RunResult &r) {
    World &w = s.w; std::map<uint32_t, const Prov *> bys; for (auto &p : w.provs) bys[p.serial] = &p;
    for (auto &kv : s.reqs) { const Req &q = kv.second; if (!q.started) continue;
      std::set<std::string> ids; for (uint32_t ser : q.serials) { auto it = bys.find(ser); if (it == bys.end()) { ids.insert("unknown-serial"); continue; } const Prov &p = *it->second; if (p.tx != (size_t)-1) { const Tx &t = w.txs[p.tx]; ids.insert("srv" + std::to_string(t.server) + (t.tcp ? "/tcp/" : "/udp/") + t.qname_lower + "/" + std::to_string(t.qtype) + "/n" + std::to_string(t.nth)); } else ids.insert("forged:" + p.forgery); }
      std::string line = "req " + std::to_string(q.id) + " " + q.kind + " calls=" + std::to_string(q.calls) + " status=" + std::to_string(q.status) + " naddr=" + std::to_string(q.addrs.size()) + " from={"; for (auto &i : ids) line += i + ","; line += "}"; r.outcome_summary.push_back(line); }
    std::sort(r.outcome_summary.begin(), r.outcome_summary.end());
    for (auto &t : w.txs) r.server_stream.push_back(std::string(t.decodable ? "" : "UNDECODABLE ") + "req" + std::to_string(t.req) + " srv" + std::to_string(t.server) + (t.tcp ? " tcp " : " udp ") + t.qname_lower + " " + std::to_string(t.qtype) + " n" + std::to_string(t.nth) + (t.edns ? " edns" : ""));
    std::sort(r.server_stream.begin(), r.server_stream.end());
  }

  void monitor_c20(RunResult &r) {
    World &w = s.w;
    for (auto &t : w.txs) if (t.outcome == O_GARBAGE || t.outcome == O_RESET || t.outcome == O_EOFMID) r.counters["c20.conn_killing_outcomes"]++;
    if (has_faults || has_cancel || has_reconfig || has_inject) r.counters["c20.conn_killing_outcomes"]++;
    // whatever reached a server over TCP is a sequence of whole [len][msg] frames, each decodable, nothing left over on an orderly close
    for (auto &t : w.txs) if (t.tcp && !t.decodable) fail(r, "C20.undecodable-frame-at-server", "server " + std::to_string(t.server) + " received a frame it cannot decode on descriptor " + std::to_string(t.fd));
    for (auto &k : w.socks) if (k.tcp && !k.outstream.empty() && !k.reset && !has_faults && !has_cancel && !has_reconfig) { bool pending_req = false; for (auto &kv : s.reqs) if (kv.second.pending_at_destroy || kv.second.status == ARES_ETIMEOUT || kv.second.status == ARES_ECANCELLED) pending_req = true; if (!pending_req) r.counters["c20.partial_frame_left_at_close"]++; }
    // a truncated UDP answer is retried over TCP unless truncation is ignored
    if (!(s.opt.flags & ARES_FLAG_IGNTC) && !has_faults && !has_cancel && !has_reconfig && !s.stuck && !s.astronomic) for (auto &t : w.txs) if (!t.tcp && t.outcome == O_TC) {
      bool delivered = false; for (auto &d : w.delivered) if (d.serial == t.serial) delivered = true; if (!delivered) continue;
      bool acceptable = true; for (auto &p : w.provs) if (p.serial == t.serial && (!p.cookie_valid || !p.genuine)) acceptable = false; if (!acceptable || (t.server >= 0 && w.servers[(size_t)t.server].cookie_mode != "none" && w.servers[(size_t)t.server].cookie_mode != "valid")) continue;   // a reply the cookie rules reject is rightly ignored
      bool upgraded = false; for (auto &u : w.txs) if (u.tcp && u.req == t.req && u.qname_lower == t.qname_lower && u.qtype == t.qtype && u.seq > t.seq) upgraded = true;
      const Req *q = s.reqs.count(t.req) ? &s.reqs[t.req] : nullptr;
      // the request may legitimately have finished otherwise first (sibling answer, destroy) or the TCP connection could not be written
      bool tcp_attempted = false; for (auto &k : w.socks) if (k.tcp && k.server >= 0 && k.opened_at >= t.t) tcp_attempted = true;
      if (!upgraded && !tcp_attempted && q && q->calls == 1 && q->status == ARES_SUCCESS && q->tx_at_end > t.seq) { bool from_tc = false; for (uint32_t ser : q->serials) if (ser == t.serial) from_tc = true; if (from_tc) fail(r, "C20.truncated-udp-answer-accepted", "request " + std::to_string(t.req) + " was completed with a truncated UDP answer although IGNTC is not set"); }
      // ... and it must actually go out over TCP: with a well-behaved virtual network nothing prevents the TCP transmission
      if (prop == "C20" && !upgraded && q && q->calls == 1 && q->status == ARES_ETIMEOUT && !r.counters["c20.conn_killing_outcomes"]) fail(r, "C20.truncated-answer-not-retried-over-tcp", "request " + std::to_string(t.req) + " got a truncated UDP answer for " + t.qname_lower + " and then timed out without the question ever reaching the server over TCP");
      r.counters[upgraded ? "c20.tc_upgraded_to_tcp" : "c20.tc_not_upgraded"]++;
    }
    r.counters["c20.split_reads"] += w.split_reads; r.counters["c20.short_writes"] += w.short_writes; r.counters["c20.blocked_writes"] += w.blocked_writes;
    if (prop == "C20" && (w.split_reads || w.short_writes || w.blocked_writes)) r.nontrivial = true;
  }

  RunResult run(const std::string &text, const std::string &property) {
    prop = property; parse(text);
    char td[256]; snprintf(td, sizeof td, "%s/build/tmp/%d", VERIF_DIR, (int)getpid()); s.tmpdir = td; mkdir((std::string(VERIF_DIR) + "/build/tmp").c_str(), 0755); mkdir(td, 0755);
    for (const char *e : {"LOCALDOMAIN", "RES_OPTIONS", "HOSTALIASES", "CARES_HOSTS"}) unsetenv(e);
    W() = &s.w;
    long live0 = vf::ledger().live;
    s.c14 = prop == "C14"; if (s.c14) { cur_sim() = &s; vf::ledger().on_fire = [] { if (cur_sim()) cur_sim()->on_alloc_fault(); }; }
    if (!s.init_channel()) { RunResult r; r.counters["sim.init_failed"]++; W() = nullptr; cur_sim() = nullptr;
      if (s.c14 && vf::ledger().live != live0) fail(r, "C14.leak", std::to_string(vf::ledger().live - live0) + " library allocations still live after a failed ares_init_options");
      if (s.c14 && s.fault_tick) { r.counters["c14.faults_fired"]++; r.counters["c14.faults_during_init"]++; }
      return r; }
    if (s.opt.c07) s.check_timeout_api();
    run_actions();
    s.drain();
    if (s.c14 && !s.destroyed && s.ch) {
      // the channel must still be usable: a fresh request on it completes (the allocator is healthy from here on)
      bool was_armed = vf::ledger().armed && vf::ledger().fail_at; uint64_t fa = vf::ledger().fail_at, cnt = vf::ledger().counter;
      // requests that are pending with no deadline and nothing deliverable were orphaned by the handling of the refused allocation (they would only be completed by cancel / destroy)
      if (s.fault_tick && s.stuck) s.stuck_after_fault = true;
      if (s.fault_tick) vf::ledger().disarm();
      if (s.fault_tick) { Req rq; rq.id = 9990; rq.kind = "query"; rq.name = "usable.probe.test"; s.reqs[9990] = rq; s.order.push_back(9990); s.start(s.reqs[9990]); s.stuck = false; s.budget_exhausted = false; s.astronomic = false; s.drain_steps = 0; s.drain(); }
      (void)was_armed; (void)fa; (void)cnt;
    }
    s.destroy();
    cur_sim() = nullptr;
    if (getenv("VERIF_TRACE")) dump_trace();
    RunResult r = finish();
    if (r.v.ok && vf::ledger().live != live0) fail(r, prop == "C14" ? "C14.leak" : "C01.leak", std::to_string(vf::ledger().live - live0) + " library allocations still live after ares_destroy");
    W() = nullptr;
    return r;
  }
};

// strip transport chopping and zero-length datagrams from a scenario (the "whole transport" twin of C20)
inline std::string whole_transport_twin(const std::string &text) {
  std::istringstream in(text); std::string l, o;
  while (std::getline(in, l)) { if (l.rfind("chop ", 0) == 0 || l.rfind("partial ", 0) == 0) continue; o += l + "\n"; }
  return o + "opt noempty=1\n";   // same outcome table (so the hash picks the same outcomes), but the zero-length datagram is not sent
}

// C14: the scenario is run once with a counting allocator (N allocations), then once per chosen index n with allocation n refused.
//   "failat all" = every n in 1..N (exhaustive for this scenario); "failat a b c" = those (reduced modulo N, so any number is a valid choice)
inline RunResult run_c14(const std::string &text) {
  std::vector<uint64_t> picks; bool all = false; std::string body;
  { std::istringstream in(text); std::string l; while (std::getline(in, l)) { if (l.rfind("failat", 0) == 0) { std::istringstream ls(l); std::string w; ls >> w; while (ls >> w) { if (w == "all") all = true; else picks.push_back(strtoull(w.c_str(), nullptr, 10)); } } else body += l + "\n"; } }
  vf::Ledger &L = vf::ledger(); vf::Stats &st = vf::stats();
  const char *tr = getenv("VERIF_TRACE"); std::string trv = tr ? tr : ""; if (tr) unsetenv("VERIF_TRACE");   // trace the faulted run only
  L.arm(0); RunResult base; { Scenario sc; base = sc.run(body, "C14"); } uint64_t N = L.counter; L.disarm(); L.on_fire = nullptr;
  if (tr) setenv("VERIF_TRACE", trv.c_str(), 1);
  if (!base.v.ok) { base.v.detail = "(no allocation refused) " + base.v.detail; return base; }
  base.counters["c14.baseline_allocations"] += N; base.counters["c14.scenarios"]++;
  if (N == 0 || (!all && picks.empty())) return base;
  std::vector<uint64_t> ns; if (all) { for (uint64_t n = 1; n <= N; n++) ns.push_back(n); base.counters["c14.scenarios_enumerated_exhaustively"]++; } else for (uint64_t k : picks) ns.push_back(1 + k % N);
  std::sort(ns.begin(), ns.end()); ns.erase(std::unique(ns.begin(), ns.end()), ns.end());
  RunResult out = base;
  for (uint64_t n : ns) {
    std::string sub = body + "failat " + std::to_string(n - 1) + "\n";   // (n-1) % N + 1 == n
    st.about_to_run(sub); st.narrowed = sub;
    L.arm(n); RunResult r; { Scenario sc; sc.baseline_enomem = base.enomem_reqs; r = sc.run(body, "C14"); } bool fired = L.fired; L.disarm(); L.on_fire = nullptr;
    out.counters["c14.runs_with_one_refused_allocation"]++; if (!fired) out.counters["c14.index_not_reached"]++;
    for (auto &kv : r.counters) if (kv.first.rfind("c14.", 0) == 0) out.counters[kv.first] += kv.second;
    if (r.nontrivial) out.nontrivial = true;
    if (!r.v.ok) { r.v.detail = "refusing allocation #" + std::to_string(n) + " of " + std::to_string(N) + ": " + r.v.detail; r.counters = out.counters; r.nontrivial = out.nontrivial; return r; }
  }
  st.narrowed.clear();
  return out;
}

// Runs a case for a property.  C20 is metamorphic: the same scenario with whole transport must give the same outcomes.
inline RunResult run_prop(const std::string &text, const std::string &prop) {
  if (prop == "C14") return run_c14(text);
  if (prop != "C20") { Scenario sc; return sc.run(text, prop); }
  RunResult var; { Scenario sc; var = sc.run(text, prop); }
  if (!var.v.ok) return var;
  RunResult base; { Scenario sc; base = sc.run(whole_transport_twin(text), prop); }
  if (!base.v.ok) { base.v.detail = "(whole-transport twin) " + base.v.detail; base.nontrivial = var.nontrivial; return base; }
  // when a connection is torn down abnormally, how much of the queued data had reached the server does depend on segmentation: not comparable
  if (var.counters["c20.conn_killing_outcomes"] || base.counters["c20.conn_killing_outcomes"]) { var.counters["c20.pairs_skipped_connection_abort"]++; var.nontrivial = false; return var; }
  if (var.outcome_summary != base.outcome_summary) {
    std::string d; for (size_t i = 0; i < std::max(var.outcome_summary.size(), base.outcome_summary.size()); i++) { std::string a = i < base.outcome_summary.size() ? base.outcome_summary[i] : "<none>", b = i < var.outcome_summary.size() ? var.outcome_summary[i] : "<none>"; if (a != b) { d = "whole:   " + a + "\n  chopped: " + b; break; } }
    var.v.ok = false; var.v.sig = "C20.outcome-depends-on-segmentation"; var.v.detail = d; return var;
  }
  if (var.server_stream != base.server_stream) {
    std::string d; for (size_t i = 0; i < std::max(var.server_stream.size(), base.server_stream.size()); i++) { std::string a = i < base.server_stream.size() ? base.server_stream[i] : "<none>", b = i < var.server_stream.size() ? var.server_stream[i] : "<none>"; if (a != b) { d = "whole:   " + a + "\n  chopped: " + b; break; } }
    var.v.ok = false; var.v.sig = "C20.server-stream-depends-on-segmentation"; var.v.detail = d; return var;
  }
  for (auto &kv : base.counters) if (kv.first.rfind("c20.", 0) != 0) {}
  var.counters["c20.metamorphic_pairs"]++;
  return var;
}

}  // namespace sim
