// rapidcheck front end for the wire properties C02 C03 C04 C18.
#include "wire_cases.hpp"
#include "rc_main.hpp"

using namespace vf;

namespace vf {
bool run_case(const std::string &text, std::string &sig, bool &nontrivial) {
  std::string detail;
  bool ok = wire::run_wire_case(text, sig, detail, nontrivial);
  if (!ok && !detail.empty()) msg("DETAIL %s\n", detail.substr(0, 1500).c_str());
  return ok;
}
}  // namespace vf

static rc::Gen<std::string> g_case(const std::string &prop, const std::string &kind, double scale) {
  auto bytes = rc::gen::scale(scale, rc::gen::container<std::vector<uint8_t>>(rc::gen::arbitrary<uint8_t>()));
  return rc::gen::map(bytes, [prop, kind](std::vector<uint8_t> v) { return wire::case_text(prop, kind, std::string(v.begin(), v.end())); });
}

int main(int argc, char **argv) {
  ares_library_init_mem(ARES_LIB_INIT_ALL, ledger_malloc, ledger_free, ledger_realloc);
  std::vector<Mode> modes;
  for (const char *prop : {"C02", "C04", "C18"})
    for (const char *kind : {"gen", "mut", "raw"}) { std::string p = prop, k = kind; modes.push_back({p + "-" + k, [p, k] { return g_case(p, k, k == "raw" ? 1.0 : 6.0); }}); }
  for (const char *kind : {"gen", "mut"}) { std::string k = kind; modes.push_back({"C14-" + k, [k] { return g_case("C14", k, 4.0); }}); }
  modes.push_back({"C03-gen", [] { return g_case("C03", "gen", 6.0); }});
  modes.push_back({"C03-mut", [] { return g_case("C03", "mut", 6.0); }});
  modes.push_back({"C03-build", [] { return g_case("C03", "build", 6.0); }});
  modes.push_back({"C03-bigbuild", [] { return g_case("C03", "bigbuild", 40.0); }});
  modes.push_back({"C03-tcp", [] { return g_case("C03", "tcp", 6.0); }});
  modes.push_back({"C03-query", [] { return g_case("C03", "query", 1.0); }});
  modes.push_back({"C04-names", [] { return g_case("C04", "names", 2.0); }});
  int rc = rc_harness_main(argc, argv, modes);
  ares_library_cleanup();
  return rc;
}
