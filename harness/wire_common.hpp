// Shared by wire_rc.cpp (rapidcheck) and wire_fuzz.cpp (libFuzzer): structure-aware message generator,
// mutators, canonical dumps (c-ares via public getters / refdns), and the oracles of C02 C03 C04 C18.
#pragma once
#include "cares_internal.hpp"
#include "common.hpp"
#include "ledger.hpp"
#include "refdns.hpp"
#include <algorithm>
#include <functional>
#include <sstream>

namespace wire {
using vf::hex;
typedef std::string Bytes;

// ------------------------------------------------------------------ choice stream
struct Chooser {
  const unsigned char *p; size_t n, i = 0;
  Chooser(const unsigned char *d, size_t len) : p(d), n(len) {}
  unsigned byte() { return i < n ? p[i++] : 0; }
  unsigned pick(unsigned k) { if (k <= 1) return 0; if (k <= 256) return byte() % k; unsigned v = (byte() << 8) | byte(); return v % k; }
  bool chance(unsigned num, unsigned den) { return pick(den) + num >= den; }   // an exhausted / all-zero stream takes no "rare" branch
  uint16_t u16() { unsigned a = byte(); return (uint16_t)((a << 8) | byte()); }
  uint32_t u32() { uint32_t a = u16(); return (a << 16) | u16(); }
  bool empty() const { return i >= n; }
};

// ------------------------------------------------------------------ generator of ref::Msg
struct GenCfg {
  bool hostname_owners = false;   // owner/question names restricted to hostname characters (needed to get through ares_dns_write)
  bool api_buildable = false;     // only shapes constructible through the public setters and re-parseable
  bool allow_big = false;
  unsigned addr_bias = 1;         // out of 8: chance that the answer section is a CNAME chain + address records (what C13/C18 care about)
};

inline Bytes gen_label(Chooser &c, const GenCfg &cfg, bool rdata_name) {
  static const char *pool[] = {"www", "example", "com", "a", "b", "mail", "net", "xn--bcher-kva", "_tcp", "_sip", "ns1", "x-y", "local", "0", "in-addr", "arpa"};
  unsigned k = c.pick(10);
  if (k < 6) return pool[c.pick(16)];
  size_t len;
  unsigned lk = c.pick(8);
  if (lk < 5) len = 1 + c.pick(6); else if (lk == 5) len = 62 + c.pick(2); else if (lk == 6) len = 20 + c.pick(30); else len = 1 + c.pick(63);
  Bytes b;
  bool arbitrary = (!cfg.hostname_owners || rdata_name) && c.chance(1, 3);
  for (size_t i = 0; i < len; i++) {
    if (arbitrary) { static const unsigned char odd[] = {0, 1, '.', '\\', '"', ';', '(', ')', '@', '$', ' ', 0x7f, 0x80, 0xff, '1', '2', 'a', '\t', '\n', 0x1f}; b += (char)(c.chance(1, 2) ? odd[c.pick(sizeof odd)] : c.byte()); }
    else { static const char hc[] = "abcdefghijklmnopqrstuvwxyzABCDEFGHIJKLMNOPQRSTUVWXYZ0123456789-_"; b += hc[c.pick(sizeof hc - 1)]; }
  }
  return b;
}

inline ref::Name gen_name(Chooser &c, const GenCfg &cfg, std::vector<ref::Name> &seen, bool rdata_name = false) {
  unsigned k = c.pick(10);
  ref::Name n;
  if (!seen.empty() && k < 3) return seen[c.pick((unsigned)seen.size())];                 // repeat a whole earlier name
  if (!seen.empty() && k < 6) {                                                          // new prefix + shared suffix
    const ref::Name &base = seen[c.pick((unsigned)seen.size())];
    size_t keep = base.labels.empty() ? 0 : 1 + c.pick((unsigned)base.labels.size());
    unsigned np = 1 + c.pick(2);
    for (unsigned i = 0; i < np; i++) n.labels.push_back(gen_label(c, cfg, rdata_name));
    for (size_t i = base.labels.size() - keep; i < base.labels.size(); i++) n.labels.push_back(base.labels[i]);
  } else if (k == 6) { /* root */ }
  else if (k == 7) { // boundary total length ~ 250..255; for names in RDATA (no host-name charset) half of them made of octets that need a \DDD escape,
    // so that the presentation form is up to four times longer than the wire form
    size_t total = 1; size_t want = 248 + c.pick(8); bool binary = rdata_name && c.chance(1, 2);
    while (total + 2 <= want) { size_t l = std::min<size_t>(63, want - total - 1); if (l == 0) break; Bytes b(l, (char)('a' + c.pick(26))); if (binary) for (auto &ch : b) if (c.chance(3, 4)) ch = (char)(1 + c.pick(31)); n.labels.push_back(b); total += 1 + l; }
  } else { unsigned nl = 1 + c.pick(5); for (unsigned i = 0; i < nl; i++) n.labels.push_back(gen_label(c, cfg, rdata_name)); }
  // keep within 255 octets
  size_t total = 1; for (auto &l : n.labels) total += 1 + l.size();
  while (total > 255 && !n.labels.empty()) { total -= 1 + n.labels.front().size(); n.labels.erase(n.labels.begin()); }
  if (seen.size() < 12) seen.push_back(n);
  return n;
}

inline Bytes gen_bytes(Chooser &c, size_t maxlen, bool printable_only = false, bool nonempty = false) {
  size_t len; unsigned k = c.pick(8);
  if (k < 5) len = c.pick(12); else if (k == 5) len = 250 + c.pick(6); else if (k == 6) len = c.pick(64); else len = c.pick((unsigned)std::min<size_t>(maxlen + 1, 65536));
  if (len > maxlen) len = maxlen;
  if (nonempty && len == 0) len = 1;
  Bytes b;
  for (size_t i = 0; i < len; i++) { if (printable_only) b += (char)(0x20 + c.pick(0x5f)); else b += (char)c.byte(); }
  return b;
}

inline ref::Field fnum(ref::FieldKind k, uint32_t v) { ref::Field f; f.kind = k; f.num = v; return f; }
inline ref::Field fname(const ref::Name &n) { ref::Field f; f.kind = ref::F_NAME; f.name = n; return f; }
inline ref::Field fbin(ref::FieldKind k, const Bytes &b) { ref::Field f; f.kind = k; f.bin = b; return f; }

static const uint16_t kTypes[] = {1, 2, 5, 6, 12, 13, 15, 16, 24, 28, 33, 35, 52, 64, 65, 256, 257};

inline uint32_t gen_u32(Chooser &c) { unsigned k = c.pick(6); if (k == 0) return 0; if (k == 1) return 0xffffffffu; if (k == 2) return 0x7fffffffu + c.pick(3); if (k == 3) return c.pick(4000); return c.u32(); }
inline uint16_t gen_u16(Chooser &c) { unsigned k = c.pick(5); if (k == 0) return 0; if (k == 1) return 0xffff; if (k == 2) return (uint16_t)c.pick(300); return c.u16(); }

inline void gen_rdata(Chooser &c, const GenCfg &cfg, ref::RR &rr, std::vector<ref::Name> &seen) {
  using namespace ref;
  rr.decoded = true; rr.fields.clear();
  auto NAME = [&]() { return fname(gen_name(c, cfg, seen, true)); };
  switch (rr.type) {
    case T_A: rr.fields.push_back(fbin(F_ADDR4, Bytes{(char)c.byte(), (char)c.byte(), (char)c.byte(), (char)c.byte()})); break;
    case T_AAAA: { Bytes b; for (int i = 0; i < 16; i++) b += (char)c.byte(); rr.fields.push_back(fbin(F_ADDR6, b)); break; }
    case T_NS: case T_CNAME: case T_PTR: rr.fields.push_back(NAME()); break;
    case T_SOA: rr.fields.push_back(NAME()); rr.fields.push_back(NAME()); for (int i = 0; i < 5; i++) rr.fields.push_back(fnum(F_U32, gen_u32(c))); break;
    case T_HINFO: rr.fields.push_back(fbin(F_STR, gen_bytes(c, 255, true))); rr.fields.push_back(fbin(F_STR, gen_bytes(c, 255, true))); break;
    case T_MX: rr.fields.push_back(fnum(F_U16, gen_u16(c))); rr.fields.push_back(NAME()); break;
    case T_TXT: { Field f; f.kind = F_ABIN; unsigned n = 1 + c.pick(4); if (c.chance(1, 10)) n = 1 + c.pick(40); if (cfg.allow_big && c.chance(1, 6)) n = 200 + c.pick(60); for (unsigned i = 0; i < n; i++) f.abin.push_back(gen_bytes(c, 255, c.chance(1, 2), false)); rr.fields.push_back(f); break; }
    case T_SIG: rr.fields.push_back(fnum(F_U16, gen_u16(c))); rr.fields.push_back(fnum(F_U8, c.byte())); rr.fields.push_back(fnum(F_U8, c.byte())); rr.fields.push_back(fnum(F_U32, gen_u32(c))); rr.fields.push_back(fnum(F_U32, gen_u32(c))); rr.fields.push_back(fnum(F_U32, gen_u32(c))); rr.fields.push_back(fnum(F_U16, gen_u16(c))); rr.fields.push_back(NAME()); rr.fields.push_back(fbin(F_BIN, gen_bytes(c, 600, false, true))); break;
    case T_SRV: for (int i = 0; i < 3; i++) rr.fields.push_back(fnum(F_U16, gen_u16(c))); rr.fields.push_back(NAME()); break;
    case T_NAPTR: rr.fields.push_back(fnum(F_U16, gen_u16(c))); rr.fields.push_back(fnum(F_U16, gen_u16(c))); for (int i = 0; i < 3; i++) rr.fields.push_back(fbin(F_STR, gen_bytes(c, 255, true))); rr.fields.push_back(NAME()); break;
    case T_TLSA: for (int i = 0; i < 3; i++) rr.fields.push_back(fnum(F_U8, c.byte())); rr.fields.push_back(fbin(F_BIN, gen_bytes(c, 600, false, true))); break;
    case T_SVCB: case T_HTTPS: { rr.fields.push_back(fnum(F_U16, gen_u16(c))); rr.fields.push_back(NAME()); Field f; f.kind = F_OPTS; unsigned n = c.pick(5); uint16_t key = 0; for (unsigned i = 0; i < n; i++) { key = (uint16_t)(key + (i == 0 ? c.pick(3) : 1 + c.pick(3))); if (c.chance(1, 8)) key = (uint16_t)(key + 1000 * (1 + c.pick(60))); f.opts.push_back({key, gen_bytes(c, 300)}); } rr.fields.push_back(f); break; }
    case T_URI: rr.fields.push_back(fnum(F_U16, gen_u16(c))); rr.fields.push_back(fnum(F_U16, gen_u16(c))); rr.fields.push_back(fbin(F_STR, gen_bytes(c, 400, true, true))); break;
    case T_CAA: rr.fields.push_back(fnum(F_U8, c.byte())); rr.fields.push_back(fbin(F_STR, gen_bytes(c, 255, true, true))); rr.fields.push_back(fbin(F_BIN, gen_bytes(c, 400, c.chance(1, 2), true))); break;
    case T_OPT: { rr.owner.labels.clear(); rr.fields.push_back(fnum(F_U16, gen_u16(c))); rr.fields.push_back(fnum(F_U8, c.chance(3, 4) ? 0 : c.byte())); rr.fields.push_back(fnum(F_U16, c.chance(1, 2) ? 0x8000 : (c.chance(1, 2) ? 0 : c.u16())));
      Field f; f.kind = F_OPTS; unsigned n = c.pick(4); std::vector<uint16_t> used; for (unsigned i = 0; i < n; i++) { static const uint16_t codes[] = {10, 12, 3, 8, 15, 11, 65001}; uint16_t code = c.chance(3, 4) ? codes[c.pick(7)] : c.u16(); if (std::find(used.begin(), used.end(), code) != used.end()) continue; used.push_back(code); f.opts.push_back({code, gen_bytes(c, code == 10 ? 40 : 300)}); } rr.fields.push_back(f);
      rr.klass = (uint16_t)rr.fields[0].num; break; }
    default: rr.decoded = false; rr.rdata = c.chance(1, 3) ? Bytes() : gen_bytes(c, 300); break;
  }
}

// ext_rcode: upper 8 bits of the 12-bit rcode, carried in OPT
inline ref::Msg gen_msg(Chooser &c, const GenCfg &cfg) {
  using namespace ref;
  Msg m; std::vector<Name> seen;
  m.id = c.u16(); unsigned fl = c.byte();
  m.qr = fl & 1; m.aa = fl & 2; m.tc = fl & 4; m.rd = fl & 8; m.ra = fl & 16; m.ad = fl & 32; m.cd = fl & 64; m.z = (fl & 128) && !cfg.api_buildable && c.chance(1, 4);
  static const uint8_t opc[] = {0, 0, 0, 0, 1, 2, 4, 5};
  m.opcode = opc[c.pick(8)]; if (!cfg.api_buildable && c.chance(1, 20)) m.opcode = (uint8_t)c.pick(16);
  static const uint8_t rcs[] = {0, 0, 0, 3, 2, 5, 1, 4, 6, 7, 8, 9, 10, 11};
  m.rcode4 = rcs[c.pick(14)]; if (!cfg.api_buildable && c.chance(1, 16)) m.rcode4 = (uint8_t)c.pick(16);
  GenCfg ocfg = cfg;
  Question q; q.name = gen_name(c, ocfg, seen, false);
  q.type = c.chance(4, 5) ? kTypes[c.pick(17)] : (c.chance(1, 2) ? 255 : c.u16());
  static const uint16_t kl[] = {1, 1, 1, 1, 1, 3, 4, 254, 255};
  q.klass = kl[c.pick(9)]; if (!cfg.api_buildable && c.chance(1, 20)) q.klass = c.u16();
  m.qd.push_back(q);
  if (!cfg.api_buildable && c.chance(1, 30)) { if (c.chance(1, 2)) m.qd.clear(); else m.qd.push_back(q); }
  bool have_opt = false; uint8_t ext = 0;
  if (cfg.allow_big && c.chance(3, 4)) {
    // "big then repeat": bulk TXT records first (filled without spending choices), so that names first written
    // beyond offset 16384 get repeated afterwards and whole messages approach / pass 64 KiB
    unsigned nbig = 40 + c.pick(230); int sect = (int)c.pick(2);
    for (unsigned i = 0; i < nbig; i++) { RR rr; rr.owner = seen.empty() ? q.name : seen[i % seen.size()]; rr.type = T_TXT; rr.klass = 1; rr.ttl = i; rr.decoded = true; Field f; f.kind = F_ABIN; f.abin.push_back(Bytes(250 + (i % 6), (char)('a' + i % 26))); rr.fields.push_back(f); m.sec[sect].push_back(rr); }
  }
  bool addr_shape = c.chance(cfg.addr_bias, 8);
  if (addr_shape) {
    unsigned ncn = c.pick(5), nad = c.pick(6); Name cur = q.name;
    for (unsigned i = 0; i < ncn; i++) { RR rr; rr.owner = cur; rr.type = T_CNAME; rr.klass = 1; rr.ttl = c.chance(1, 2) ? 50 + 100 * c.pick(6) : gen_u32(c); rr.decoded = true; cur = gen_name(c, ocfg, seen, false); rr.fields.push_back(fname(cur)); m.sec[0].push_back(rr); }
    for (unsigned i = 0; i < nad; i++) { RR rr; rr.owner = cur; rr.type = c.chance(1, 3) ? T_AAAA : T_A; rr.klass = c.chance(1, 10) ? 3 : 1; rr.ttl = c.chance(1, 2) ? 10 + 100 * c.pick(8) : gen_u32(c); gen_rdata(c, cfg, rr, seen); m.sec[0].push_back(rr); }
  }
  for (int s = addr_shape ? 1 : 0; s < 3; s++) {
    unsigned n = c.pick(5); if (c.chance(1, 12)) n = 5 + c.pick(40); if (cfg.allow_big && c.chance(1, 8)) n = 60 + c.pick(200);
    for (unsigned i = 0; i < n; i++) {
      RR rr; rr.owner = gen_name(c, ocfg, seen, false);
      unsigned tk = c.pick(12);
      if (tk < 9) rr.type = kTypes[c.pick(17)]; else if (tk == 9) { static const uint16_t unk[] = {65281, 99, 3, 46, 48, 250, 32769}; rr.type = unk[c.pick(7)]; } else if (tk == 10 && s == 2 && !have_opt) rr.type = T_OPT; else rr.type = (i && !m.sec[s].empty()) ? m.sec[s].back().type : T_A;
      if (cfg.api_buildable && rr.type == T_OPT && s != 2) rr.type = T_A;
      static const uint16_t rkl[] = {1, 1, 1, 1, 1, 1, 3, 4, 254};
      rr.klass = rkl[c.pick(9)]; if (!cfg.api_buildable && c.chance(1, 25)) rr.klass = c.u16();
      // class ANY (RFC 2136 prerequisites, TSIG/TKEY): always legal on an undecoded type and on SIG; on a decoded type the parser may refuse it (outside the strict subset)
      if (c.chance(1, 10) && (!ref::known_type(rr.type) || rr.type == T_SIG || !cfg.api_buildable)) rr.klass = 255;
      rr.ttl = gen_u32(c);
      gen_rdata(c, cfg, rr, seen);
      if (rr.type == T_OPT) { have_opt = true; ext = c.chance(2, 3) ? 0 : (uint8_t)(c.chance(1, 2) ? 1 : c.byte()); rr.ttl = (uint32_t)ext << 24; }
      m.sec[s].push_back(rr);
    }
  }
  (void)ext;
  return m;
}

// ------------------------------------------------------------------ mutators on wire bytes
inline void mutate(Chooser &c, Bytes &w) {
  if (w.empty()) return;
  unsigned rounds = 1 + c.pick(3);
  for (unsigned r = 0; r < rounds; r++) {
    unsigned k = c.pick(12); size_t pos = c.pick((unsigned)w.size());
    if (k >= 9) {
      // pointer-shape mutations: find an existing backwards pointer A (at offset a, target t) and plant a second pointer at t,
      // so that decoding hops pointer -> pointer; the planted one goes to itself, forward but below a, onto a, or anywhere
      std::vector<size_t> ptrs;
      for (size_t i = 12; i + 1 < w.size(); i++) if (((unsigned char)w[i] & 0xc0) == 0xc0) { size_t t = (((unsigned char)w[i] & 0x3f) << 8) | (unsigned char)w[i + 1]; if (t < i && t + 1 < w.size()) ptrs.push_back(i); }
      if (ptrs.empty()) { k = 4; }
      else {
        size_t a = ptrs[c.pick((unsigned)ptrs.size())]; size_t t = (((unsigned char)w[a] & 0x3f) << 8) | (unsigned char)w[a + 1];
        size_t nt; unsigned how = c.pick(5);
        if (how == 0) nt = t; else if (how == 1) nt = t + 1 + c.pick((unsigned)(a - t)); else if (how == 2) nt = a; else if (how == 3) nt = t ? c.pick((unsigned)t) : 0; else nt = c.pick((unsigned)w.size());
        w[t] = (char)(0xc0 | ((nt >> 8) & 0x3f)); w[t + 1] = (char)(nt & 0xff);
        continue;
      }
    }
    switch (k) {
      case 0: w[pos] = (char)c.byte(); break;
      case 1: w[pos] = (char)(w[pos] ^ (1 << c.pick(8))); break;
      case 2: w.resize(pos); break;                                              // truncate
      case 3: { Bytes extra = gen_bytes(c, 40); w += extra; break; }             // trailing bytes
      case 4: { // retarget / create a pointer
        if (pos + 1 < w.size()) { unsigned t = c.chance(1, 2) ? c.pick((unsigned)w.size()) : c.pick(0x4000); w[pos] = (char)(0xc0 | (t >> 8)); w[pos + 1] = (char)(t & 0xff); } break; }
      case 5: { if (pos + 1 < w.size()) { unsigned v = c.chance(1, 2) ? c.pick(8) : c.u16(); w[pos] = (char)(v >> 8); w[pos + 1] = (char)(v & 0xff); } break; }   // overwrite a 16-bit field
      case 6: { if (w.size() >= 12) { unsigned which = 4 + 2 * c.pick(4); unsigned v = c.pick(4); w[which] = 0; w[which + 1] = (char)v; } break; }        // section count
      case 7: w.erase(pos, 1 + c.pick(4)); break;
      case 8: w.insert(pos, gen_bytes(c, 6)); break;
    }
    if (w.empty()) return;
  }
}

// ------------------------------------------------------------------ canonical dumps
inline std::string name_hex(const ref::Name &n) { std::string o = "["; for (size_t i = 0; i < n.labels.size(); i++) { if (i) o += '.'; o += hex(n.labels[i]); } return o + "]"; }
inline std::string text_name_hex(const char *t) { if (!t) return "NULLNAME"; ref::Name n; if (!ref::unescape_name(t, n)) return std::string("BADESCAPE(") + t + ")"; return name_hex(n); }

inline bool rcode_known(unsigned r) { return r <= 11 || (r >= 16 && r <= 23); }

// raw-ification under parse flags (only for comparison with ares_dns_parse(flags))
inline bool flag_makes_raw(unsigned flags, int sect, uint16_t type) {
  bool base = type == 1 || type == 2 || type == 5 || type == 6 || type == 12 || type == 13 || type == 15 || type == 16;
  unsigned bit = base ? (1u << sect) : (1u << (3 + sect));
  return (flags & bit) != 0;
}

inline std::string fields_dump(const std::vector<ref::Field> &F) {
  std::string o;
  for (auto &f : F) {
    switch (f.kind) {
      case ref::F_U8: o += " u8=" + std::to_string(f.num); break;
      case ref::F_U16: o += " u16=" + std::to_string(f.num); break;
      case ref::F_U32: o += " u32=" + std::to_string(f.num); break;
      case ref::F_NAME: o += " name=" + name_hex(f.name); break;
      case ref::F_STR: o += " str=" + hex(f.bin); break;
      case ref::F_BIN: o += " bin=" + hex(f.bin); break;
      case ref::F_ADDR4: o += " a4=" + hex(f.bin); break;
      case ref::F_ADDR6: o += " a6=" + hex(f.bin); break;
      case ref::F_ABIN: o += " abin=("; for (auto &s : f.abin) o += hex(s) + ","; o += ")"; break;
      case ref::F_OPTS: { // the public API is keyed by option code: a repeated code replaces the earlier value in place
        std::vector<std::pair<uint16_t, Bytes>> u; for (auto &p : f.opts) { bool rep = false; for (auto &q : u) if (q.first == p.first) { q.second = p.second; rep = true; } if (!rep) u.push_back(p); }
        o += " opts=("; for (auto &p : u) o += std::to_string(p.first) + ":" + hex(p.second) + ","; o += ")"; break; }
    }
  }
  return o;
}

inline std::string ref_dump(const ref::Msg &m, unsigned flags = 0) {
  std::ostringstream o;
  unsigned raw = m.rcode4;
  for (int s = 0; s < 3; s++) for (auto &rr : m.sec[s]) if (rr.type == ref::T_OPT && !flag_makes_raw(flags, s, rr.type)) raw |= ((rr.ttl >> 24) & 0xff) << 4;
  unsigned rcode = rcode_known(raw) ? raw : 2;
  o << "H id=" << m.id << " qr=" << m.qr << " op=" << (int)m.opcode << " aa=" << m.aa << " tc=" << m.tc << " rd=" << m.rd << " ra=" << m.ra << " ad=" << m.ad << " cd=" << m.cd << " rcode=" << rcode << "\n";
  for (auto &q : m.qd) o << "Q " << name_hex(q.name) << " type=" << q.type << " class=" << q.klass << "\n";
  static const char *sn[] = {"AN", "NS", "AR"};
  for (int s = 0; s < 3; s++) for (auto &rr : m.sec[s]) {
    bool opaque = !rr.decoded || flag_makes_raw(flags, s, rr.type);
    bool opt = rr.type == ref::T_OPT && !opaque;
    o << sn[s] << " " << name_hex(rr.owner) << " type=" << (opaque ? 65536u : (unsigned)rr.type) << " class=" << (opt ? 1u : (unsigned)rr.klass) << " ttl=" << (opt ? 0u : rr.ttl);
    if (opaque) o << " u16=" << rr.type << " bin=" << hex(rr.rdata);
    else o << fields_dump(rr.fields);
    o << "\n";
  }
  return o.str();
}

inline std::string cares_dump(const ares_dns_record_t *rec) {
  std::ostringstream o;
  unsigned short fl = ares_dns_record_get_flags(rec);
  o << "H id=" << ares_dns_record_get_id(rec) << " qr=" << !!(fl & ARES_FLAG_QR) << " op=" << (int)ares_dns_record_get_opcode(rec) << " aa=" << !!(fl & ARES_FLAG_AA) << " tc=" << !!(fl & ARES_FLAG_TC) << " rd=" << !!(fl & ARES_FLAG_RD) << " ra=" << !!(fl & ARES_FLAG_RA) << " ad=" << !!(fl & ARES_FLAG_AD) << " cd=" << !!(fl & ARES_FLAG_CD) << " rcode=" << (unsigned)ares_dns_record_get_rcode(rec) << "\n";
  for (size_t i = 0; i < ares_dns_record_query_cnt(rec); i++) { const char *n = nullptr; ares_dns_rec_type_t t; ares_dns_class_t k; if (ares_dns_record_query_get(rec, i, &n, &t, &k) != ARES_SUCCESS) { o << "Q GETFAILED\n"; continue; } o << "Q " << text_name_hex(n) << " type=" << (unsigned)t << " class=" << (unsigned)k << "\n"; }
  static const char *sn[] = {"AN", "NS", "AR"};
  for (int s = 0; s < 3; s++) {
    ares_dns_section_t sect = (ares_dns_section_t)(s + 1);
    for (size_t i = 0; i < ares_dns_record_rr_cnt(rec, sect); i++) {
      const ares_dns_rr_t *rr = ares_dns_record_rr_get_const(rec, sect, i);
      if (!rr) { o << sn[s] << " NULLRR\n"; continue; }
      ares_dns_rec_type_t type = ares_dns_rr_get_type(rr);
      o << sn[s] << " " << text_name_hex(ares_dns_rr_get_name(rr)) << " type=" << (unsigned)type << " class=" << (unsigned)ares_dns_rr_get_class(rr) << " ttl=" << ares_dns_rr_get_ttl(rr);
      size_t nk = 0; const ares_dns_rr_key_t *keys = ares_dns_rr_get_keys(type, &nk);
      for (size_t k = 0; k < nk; k++) {
        ares_dns_rr_key_t key = keys[k];
        switch (ares_dns_rr_key_datatype(key)) {
          case ARES_DATATYPE_INADDR: { const struct in_addr *a = ares_dns_rr_get_addr(rr, key); o << " a4=" << (a ? hex((const unsigned char *)a, 4) : "NULL"); break; }
          case ARES_DATATYPE_INADDR6: { const struct ares_in6_addr *a = ares_dns_rr_get_addr6(rr, key); o << " a6=" << (a ? hex((const unsigned char *)a, 16) : "NULL"); break; }
          case ARES_DATATYPE_U8: o << " u8=" << (unsigned)ares_dns_rr_get_u8(rr, key); break;
          case ARES_DATATYPE_U16: o << " u16=" << (unsigned)ares_dns_rr_get_u16(rr, key); break;
          case ARES_DATATYPE_U32: o << " u32=" << ares_dns_rr_get_u32(rr, key); break;
          case ARES_DATATYPE_NAME:
            if (key == ARES_RR_URI_TARGET) { const char *sv = ares_dns_rr_get_str(rr, key); o << " str=" << (sv ? hex((const unsigned char *)sv, strlen(sv)) : "NULL"); break; }  // RFC 7553: the target is raw text, not a domain name
            o << " name=" << text_name_hex(ares_dns_rr_get_str(rr, key)); break;
          case ARES_DATATYPE_STR: { const char *sv = ares_dns_rr_get_str(rr, key); o << " str=" << (sv ? hex((const unsigned char *)sv, strlen(sv)) : "NULL"); break; }
          case ARES_DATATYPE_BIN: case ARES_DATATYPE_BINP: { size_t l = 0; const unsigned char *b = ares_dns_rr_get_bin(rr, key, &l); o << " bin=" << ((b || l == 0) ? hex(b, l) : "NULL"); break; }
          case ARES_DATATYPE_ABINP: { o << " abin=("; size_t cnt = ares_dns_rr_get_abin_cnt(rr, key); for (size_t j = 0; j < cnt; j++) { size_t l = 0; const unsigned char *b = ares_dns_rr_get_abin(rr, key, j, &l); o << ((b || l == 0) ? hex(b, l) : "NULL") << ","; } o << ")"; break; }
          case ARES_DATATYPE_OPT: { o << " opts=("; size_t cnt = ares_dns_rr_get_opt_cnt(rr, key); for (size_t j = 0; j < cnt; j++) { const unsigned char *v = nullptr; size_t l = 0; unsigned short code = ares_dns_rr_get_opt(rr, key, j, &v, &l); o << code << ":" << hex(v, v ? l : 0) << ","; } o << ")"; break; }
        }
      }
      o << "\n";
    }
  }
  return o.str();
}

// first differing line of two dumps, for signatures / messages
inline std::string first_diff(const std::string &a, const std::string &b) {
  std::istringstream x(a), y(b); std::string la, lb; int n = 0;
  while (true) { bool ga = (bool)std::getline(x, la), gb = (bool)std::getline(y, lb); if (!ga && !gb) return ""; n++; if (ga != gb || la != lb) return "line " + std::to_string(n) + "\n  A: " + (ga ? la.substr(0, 400) : "<end>") + "\n  B: " + (gb ? lb.substr(0, 400) : "<end>"); }
}
// which kind of line differs first (H/Q/AN/NS/AR + field kind) -> stable clause id
inline std::string diff_clause(const std::string &a, const std::string &b) {
  std::istringstream x(a), y(b); std::string la, lb;
  while (true) {
    bool ga = (bool)std::getline(x, la), gb = (bool)std::getline(y, lb); if (!ga && !gb) return "none";
    if (ga != gb) return "rr-count";
    if (la != lb) {
      std::istringstream ta(la), tb(lb); std::string wa, wb, sec; ta >> sec; tb >> wb; if (sec != wb) return "section";
      int idx = 0; while (true) { bool ha = (bool)(ta >> wa), hb = (bool)(tb >> wb); if (!ha || !hb) return sec + ".field-count"; idx++; if (wa != wb) { std::string k = wa.substr(0, wa.find('=')); if (k.rfind("BADESCAPE", 0) == 0 || wa.find("=BADESCAPE") != std::string::npos) return sec + ".name-bad-escape"; if (sec != "H" && idx == 1) k = (sec == "Q") ? "name" : "owner"; return sec + "." + k; } }
    }
  }
}

}  // namespace wire
