// Case text <-> execution for the wire properties (shared by the rapidcheck and libFuzzer front ends).
//   prop C02|C03|C04|C18 ; kind ... ; flags N ; off N ; cap N ; pad N ; prefix N ; consumed N ; msg <hex> | choices <hex>
#pragma once
#include "wire_oracles.hpp"
#include "wire_c18.hpp"

namespace wire {

struct Case {
  std::string prop, kind; unsigned flags = 0; size_t off = 0; int cap = 0; size_t pad = 0, prefix = 0, consumed = 0;
  Bytes msg, choices; bool has_msg = false;
};

inline bool parse_case(const std::string &text, Case &c) {
  std::istringstream in(text); std::string l;
  while (std::getline(in, l)) {
    if (l.empty() || l[0] == '#') continue;
    std::istringstream ls(l); std::string k, v; ls >> k; ls >> v;
    if (k == "prop") c.prop = v; else if (k == "kind") c.kind = v; else if (k == "flags") c.flags = (unsigned)strtoul(v.c_str(), 0, 10);
    else if (k == "off") c.off = strtoul(v.c_str(), 0, 10); else if (k == "cap") c.cap = atoi(v.c_str()); else if (k == "pad") c.pad = strtoul(v.c_str(), 0, 10);
    else if (k == "prefix") c.prefix = strtoul(v.c_str(), 0, 10); else if (k == "consumed") c.consumed = strtoul(v.c_str(), 0, 10);
    else if (k == "msg") { std::vector<unsigned char> b; if (!vf::unhex(v, b)) return false; c.msg.assign(b.begin(), b.end()); c.has_msg = true; }
    else if (k == "choices") { std::vector<unsigned char> b; if (!vf::unhex(v, b)) return false; c.choices.assign(b.begin(), b.end()); }
  }
  return !c.prop.empty();
}

// choices -> wire message (valid structure, optionally mutated).  kind: gen | mut | raw
inline Bytes make_message(const std::string &kind, const Bytes &choices, bool hostname_owners = false, unsigned addr_bias = 1) {
  if (kind == "raw") return choices;
  Chooser c((const unsigned char *)choices.data(), choices.size());
  GenCfg cfg; cfg.hostname_owners = hostname_owners; cfg.addr_bias = addr_bias;
  unsigned mode = c.pick(4);
  ref::Msg m = gen_msg(c, cfg);
  ref::Encoder e; e.opt.mode = (int)mode; e.opt.compress_rdata_names_of_new_types = c.chance(1, 6);
  Bytes w = e.message(m);
  if (kind == "mut") mutate(c, w);
  return w;
}

inline std::string case_text(const std::string &prop, const std::string &kind, const Bytes &choices) {
  // front-end helper: derive parameters from the tail of the choice stream and materialise the message
  Chooser t((const unsigned char *)choices.data(), choices.size());
  std::string o = "prop " + prop + "\nkind " + kind + "\n";
  unsigned a = choices.empty() ? 0 : (unsigned char)choices[choices.size() - 1], b = choices.size() < 2 ? 0 : (unsigned char)choices[choices.size() - 2];
  if (prop == "C03" && (kind == "build" || kind == "tcp" || kind == "query" || kind == "bigbuild")) {
    if (kind == "tcp") o += "prefix " + std::to_string((a % 4 == 0) ? 0 : (a % 4 == 1 ? 2 + b % 5 : (a % 4 == 2 ? 40 + b : 12 + b % 90))) + "\nconsumed " + std::to_string(b % 3 == 0 ? 0 : b % 7) + "\n";
    o += "choices " + hex(choices) + "\n"; return o;
  }
  if (prop == "C04" && kind == "names") { o += "choices " + hex(choices) + "\n"; return o; }
  Bytes w = make_message(kind, choices, prop == "C03", prop == "C18" ? 4 : 1);
  unsigned flags = 0;
  if (prop == "C02" || prop == "C14") flags = (a & 1) ? 0 : (a >> 1) % 64; else if (prop == "C04") flags = (a % 5 == 0) ? b % 64 : 0;
  o += "flags " + std::to_string(flags) + "\n";
  if (prop == "C02") { o += "off " + std::to_string((a * 256u + b) % 70000u) + "\ncap " + std::to_string(b % 9) + "\n"; if (a % 37 == 0) o += "pad " + std::to_string(65530u + b * 17u) + "\n"; }
  if (prop == "C14") { o += "off " + std::to_string((a * 256u + b) % 70000u) + "\ncap " + std::to_string(b % 9) + "\nconsumed " + std::string(getenv("SIM_C14_ALL") && *getenv("SIM_C14_ALL") == '1' ? "1" : (a % 4 == 0 ? "1" : "0")) + "\nchoices " + hex(choices.substr(0, 24)) + "\n"; }
  if (prop == "C18") o += "cap " + std::to_string(b % 7) + "\n";
  o += "msg " + hex(w) + "\n";
  return o;
}

inline bool run_wire_case(const std::string &text, std::string &sig, std::string &detail, bool &nontrivial) {
  Case c; if (!parse_case(text, c)) { sig = "harness.unparseable-case"; return false; }
  Outcome o; bool ok = true;
  long live0 = vf::ledger().live;
  Bytes w = c.msg;
  if (c.pad && w.size() < c.pad) w.resize(c.pad, '\0');
  if (c.prop == "C04") {
    if (c.kind == "names") { Chooser ch((const unsigned char *)c.choices.data(), c.choices.size()); GenCfg cfg; std::vector<ref::Name> seen; for (int i = 0; ok && i < 3; i++) { ref::Name n = gen_name(ch, cfg, seen, true); ok = check_name_roundtrip(n, o); } o.nontrivial = true; }
    else ok = check_c04(w, c.flags, o);
  } else if (c.prop == "C02") { C02Params p; p.flags = c.flags; p.off = c.off; p.cap = c.cap; ok = check_c02(w, p, o); }
  else if (c.prop == "C18") { ok = check_c18(w, c.cap, o); }
  else if (c.prop == "C14") { C02Params p; p.flags = c.flags; p.off = c.off; p.cap = c.cap; std::vector<uint64_t> picks; for (size_t i = 0; i + 1 < c.choices.size() && picks.size() < 12; i += 2) picks.push_back(((uint64_t)(unsigned char)c.choices[i] << 8) | (unsigned char)c.choices[i + 1]); ok = check_c14_wire(w, p, c.consumed == 1, picks, o); }
  else if (c.prop == "C03") {
    if (c.kind == "build" || c.kind == "bigbuild") { Chooser ch((const unsigned char *)c.choices.data(), c.choices.size()); GenCfg cfg; cfg.hostname_owners = true; cfg.api_buildable = true; cfg.allow_big = c.kind == "bigbuild"; ref::Msg m = gen_msg(ch, cfg); ok = check_c03_build(m, o); }
    else if (c.kind == "tcp") {
      Chooser ch((const unsigned char *)c.choices.data(), c.choices.size()); GenCfg cfg; cfg.hostname_owners = true; cfg.api_buildable = true;
      unsigned n = 1 + ch.pick(3); std::vector<RecGuard> gs(n); std::vector<const ares_dns_record_t *> recs; std::string why;
      for (unsigned i = 0; i < n; i++) { ref::Msg m = gen_msg(ch, cfg); if (build_record(m, &gs[i].r, why)) recs.push_back(gs[i].r); }
      if (!recs.empty()) ok = check_c03_tcp(recs, c.prefix, c.consumed, o); else vf::stats().discarded++;
    } else if (c.kind == "query") {
      Chooser ch((const unsigned char *)c.choices.data(), c.choices.size()); GenCfg cfg; cfg.hostname_owners = true; std::vector<ref::Name> seen;
      ref::Name n = gen_name(ch, cfg, seen, false); static const int kl[] = {1, 1, 3, 4, 254, 255}; int type = ch.chance(3, 4) ? (int)kTypes[ch.pick(17)] : (int)(1 + ch.pick(65534));
      ok = check_c03_query(n, kl[ch.pick(6)], type, ch.u16(), (int)ch.pick(2), ch.chance(1, 2) ? 0 : (int)(ch.chance(1, 2) ? 1232 : 1 + ch.pick(65535)), ch.chance(1, 4), o);
    } else ok = check_c03_msg(w, o);
  } else { sig = "harness.unknown-prop"; return false; }
  if (ok && vf::ledger().live != live0) { ok = false; o.sig = c.prop + ".leak"; o.detail = std::to_string(vf::ledger().live - live0) + " blocks still allocated after the case"; }
  sig = o.sig; detail = o.detail; nontrivial = o.nontrivial;
  return ok;
}

}  // namespace wire
