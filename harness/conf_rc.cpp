// C15 (configuration text parsed robustly and line-independently) and C16 (save / dup / re-apply lossless; user settings win).
// No network: channels are only initialised, read back (public save_options / get_servers_csv plus the channel fields through
// the internal header, as test/ares-test-internal.cc does) and destroyed.  Library variant "sim": no threads, so ares_reinit()
// is synchronous.
//
// Case text (one item per line; hex is used wherever a line may contain arbitrary bytes):
//   prop C15|C16
//   kind resolv|nss|svc|hosts|aliases|sortlist|csv|options     (C15)      kind c16 (C16)
//   v <hex line>            a valid directive line (from the grammar)
//   j <pos> <hex line>      a junk line inserted before valid line number pos in the "junk twin" (C15)
//   env <NAME> <hex value>  RES_OPTIONS / LOCALDOMAIN (same in both twins)
//   q <name>                name looked up in the hosts / aliases kinds
//   s <hex string>          the string under test for the sortlist / csv / options kinds
//   o <name> <value>        C16: an init option (see apply_opt)
//   set <how> <csv>         C16: servers set after init through one of the four setters
//   sl <hex>                C16: ares_set_sortlist string
//   lip4 <n> / lip6 <hex> / ldev <name>   C16: local bind settings
//   rc2 <hex line>          C16: resolv.conf content for the reinit (replaces the "v" lines)
//   reinit                  C16
#include "cares_internal.hpp"
#include "wire_common.hpp"
#include "rc_main.hpp"
#include "ledger.hpp"
#include <sys/stat.h>

extern "C" {
ares_status_t vf_parse_nsswitch_line(const ares_channel_t *channel, ares_sysconfig_t *sysconfig, ares_buf_t *line);
ares_status_t vf_parse_svcconf_line(const ares_channel_t *channel, ares_sysconfig_t *sysconfig, ares_buf_t *line);
}

using namespace vf;
using wire::Chooser;
typedef std::string Bytes;

static std::string hexs(const std::string &s) { return s.empty() ? "-" : vf::hex(s); }
static std::string unhexs(const std::string &h) { if (h == "-") return ""; std::vector<unsigned char> b; if (!vf::unhex(h, b)) return ""; return std::string(b.begin(), b.end()); }

struct Verdict { bool ok = true; std::string sig, detail; };
static bool failv(Verdict &v, const std::string &sig, const std::string &d) { if (v.ok) { v.ok = false; v.sig = sig; v.detail = d; } return false; }

static std::string g_tmp;
static std::string write_file(const std::string &name, const std::string &content) {
  std::string p = g_tmp + "/" + name; FILE *f = fopen(p.c_str(), "wb"); if (f) { fwrite(content.data(), 1, content.size(), f); fclose(f); } return p;
}

// ------------------------------------------------------------------ effective configuration of a channel
static std::string sortlist_str(const struct apattern *sl, size_t n) {
  std::string o; for (size_t i = 0; i < n; i++) { char b[64] = ""; if (sl[i].addr.family == AF_INET) inet_ntop(AF_INET, &sl[i].addr.addr.addr4, b, sizeof b); else inet_ntop(AF_INET6, &sl[i].addr.addr.addr6, b, sizeof b); o += std::string(b) + "/" + std::to_string((unsigned)sl[i].mask) + " "; } return o;
}
struct Snap { std::map<std::string, std::string> f; };
static Snap snapshot(ares_channel_t *ch, bool with_mask = true) {
  Snap s;
  s.f["flags"] = std::to_string(ch->flags); s.f["timeout"] = std::to_string(ch->timeout); s.f["tries"] = std::to_string(ch->tries); s.f["ndots"] = std::to_string(ch->ndots);
  s.f["maxtimeout"] = std::to_string(ch->maxtimeout); s.f["rotate"] = std::to_string((int)ch->rotate); s.f["udp_port"] = std::to_string(ch->udp_port); s.f["tcp_port"] = std::to_string(ch->tcp_port);
  s.f["ednspsz"] = std::to_string(ch->ednspsz); s.f["udpmax"] = std::to_string(ch->udp_max_queries); s.f["qcache"] = std::to_string(ch->qcache_max_ttl);
  s.f["failover"] = std::to_string(ch->server_retry_chance) + "/" + std::to_string(ch->server_retry_delay);
  s.f["lookups"] = ch->lookups ? ch->lookups : "(null)";
  { std::string d; for (size_t i = 0; i < ch->ndomains; i++) d += std::string(ch->domains[i] ? ch->domains[i] : "(null)") + " "; s.f["domains"] = d; }
  s.f["sortlist"] = sortlist_str(ch->sortlist, ch->nsort);
  { char *csv = ares_get_servers_csv(ch); s.f["servers"] = csv ? csv : "(null)"; ares_free_string(csv); }
  s.f["local_dev"] = ch->local_dev_name; s.f["local_ip4"] = std::to_string(ch->local_ip4); s.f["local_ip6"] = vf::hex(std::string((const char *)ch->local_ip6, 16));
  if (with_mask) s.f["optmask"] = std::to_string(ch->optmask);
  return s;
}
static std::string diff(const Snap &a, const Snap &b, const std::set<std::string> &skip = {}) {
  for (auto &kv : a.f) { if (skip.count(kv.first)) continue; auto it = b.f.find(kv.first); if (it == b.f.end() || it->second != kv.second) return kv.first + ": '" + kv.second + "' vs '" + (it == b.f.end() ? std::string("<absent>") : it->second) + "'"; }
  return "";
}

// documented / sane ranges of an initialised channel (C15 "a configuration within documented ranges")
static bool ranges_ok(ares_channel_t *ch, Verdict &v, bool may_have_no_servers = false) {
  if (ch->tries < 1) return failv(v, "C15.range.tries", "tries = " + std::to_string(ch->tries));
  if (ch->timeout < 1) return failv(v, "C15.range.timeout", "timeout = " + std::to_string(ch->timeout));
  // the public option structure carries these as int: anything larger cannot be a configured value
  if (ch->timeout > (size_t)INT_MAX || ch->tries > (size_t)INT_MAX || ch->ndots > (size_t)INT_MAX) return failv(v, "C15.range.exceeds-int", "timeout " + std::to_string(ch->timeout) + " tries " + std::to_string(ch->tries) + " ndots " + std::to_string(ch->ndots));
  if (!ch->lookups || !*ch->lookups) return failv(v, "C15.range.lookups-empty", "");
  for (const char *p = ch->lookups; *p; p++) if (*p != 'b' && *p != 'f') return failv(v, "C15.range.lookups", ch->lookups);
  for (size_t i = 0; i < ch->nsort; i++) { const struct apattern &a = ch->sortlist[i]; if (a.addr.family != AF_INET && a.addr.family != AF_INET6) return failv(v, "C15.range.sortlist-family", ""); if (a.mask > (a.addr.family == AF_INET ? 32 : 128)) return failv(v, "C15.range.sortlist-mask", std::to_string((unsigned)a.mask)); }
  for (size_t i = 0; i < ch->ndomains; i++) if (!ch->domains[i]) return failv(v, "C15.range.null-domain", "");
  if (!may_have_no_servers && ares_slist_len(ch->servers) == 0) return failv(v, "C15.range.no-servers", "initialisation succeeded with an empty server list although default servers are allowed");
  return true;
}

// ------------------------------------------------------------------ case
struct Case {
  std::string prop, kind; std::vector<std::string> valid; std::vector<std::pair<size_t, std::string>> junk; std::vector<std::pair<std::string, std::string>> env;
  std::vector<std::string> queries; std::string str; bool has_str = false;
  std::vector<std::pair<std::string, std::string>> opts; std::vector<std::pair<std::string, std::string>> sets; std::string sl; bool has_sl = false; unsigned lip4 = 0; std::string lip6, ldev;
  std::vector<std::string> rc2; bool reinit = false;
};
static bool parse_case(const std::string &text, Case &c) {
  std::istringstream in(text); std::string l;
  while (std::getline(in, l)) {
    if (l.empty() || l[0] == '#') continue; std::istringstream ls(l); std::string k; ls >> k; std::string a, b; ls >> a; ls >> b;
    if (k == "prop") c.prop = a; else if (k == "kind") c.kind = a; else if (k == "v") c.valid.push_back(unhexs(a)); else if (k == "j") c.junk.push_back({(size_t)strtoul(a.c_str(), 0, 10), unhexs(b)});
    else if (k == "env") c.env.push_back({a, unhexs(b)}); else if (k == "q") c.queries.push_back(a); else if (k == "s") { c.str = unhexs(a); c.has_str = true; }
    else if (k == "o") c.opts.push_back({a, b}); else if (k == "set") c.sets.push_back({a, b}); else if (k == "sl") { c.sl = unhexs(a); c.has_sl = true; } else if (k == "lip4") c.lip4 = (unsigned)strtoul(a.c_str(), 0, 10);
    else if (k == "lip6") c.lip6 = unhexs(a); else if (k == "ldev") c.ldev = a; else if (k == "rc2") c.rc2.push_back(unhexs(a)); else if (k == "reinit") c.reinit = true;
  }
  return !c.prop.empty() && !c.kind.empty();
}
static std::string join_lines(const std::vector<std::string> &v) { std::string o; for (auto &l : v) o += l + "\n"; return o; }
static std::vector<std::string> with_junk(const Case &c) {
  std::vector<std::string> out; for (size_t i = 0; i <= c.valid.size(); i++) { for (auto &j : c.junk) if (std::min(j.first, c.valid.size()) == i) out.push_back(j.second); if (i < c.valid.size()) out.push_back(c.valid[i]); } return out;
}
static void set_env(const Case &c) { for (const char *e : {"LOCALDOMAIN", "RES_OPTIONS", "HOSTALIASES", "CARES_HOSTS"}) unsetenv(e); for (auto &kv : c.env) if (kv.second.find('\0') == std::string::npos) setenv(kv.first.c_str(), kv.second.c_str(), 1); }

// channel initialised from a resolv.conf text; nullptr + status when initialisation fails
static ares_channel_t *init_from(const std::string &resolv, const std::string &hosts, const char *lookups, int &status) {
  std::string rp = write_file("resolv-x.conf", resolv), hp = write_file("hosts-x", hosts);   // (own file names: C16 keeps its channel's resolv.conf in place)
  struct ares_options o; memset(&o, 0, sizeof o); int mask = ARES_OPT_RESOLVCONF | ARES_OPT_HOSTS_FILE; o.resolvconf_path = (char *)rp.c_str(); o.hosts_path = (char *)hp.c_str();
  if (lookups) { o.lookups = (char *)lookups; mask |= ARES_OPT_LOOKUPS; }
  ares_channel_t *ch = nullptr; status = ares_init_options(&ch, &o, mask); if (status != ARES_SUCCESS) ch = nullptr; return ch;
}

struct HostRes { int status = -1; std::string text; };
static void host_cb(void *arg, int status, int, struct hostent *h) {
  HostRes *r = (HostRes *)arg; r->status = status; if (!h) return; r->text = std::string(h->h_name ? h->h_name : "") + "|";
  for (char **p = h->h_aliases; p && *p; p++) r->text += std::string(*p) + ","; r->text += "|";
  for (char **p = h->h_addr_list; p && *p; p++) r->text += vf::hex(std::string(*p, (size_t)h->h_length)) + ",";
}

// ------------------------------------------------------------------ C15
static bool csv_entries_independent(const std::string &csv, bool ports, Verdict &v);
static bool run_c15(const Case &c, Verdict &v, bool &nontrivial) {
  set_env(c);
  std::vector<std::string> twin = with_junk(c);
  nontrivial = !c.valid.empty() && !c.junk.empty();
  if (c.kind == "resolv") {
    int sa = 0, sb = 0; ares_channel_t *a = init_from(join_lines(c.valid), "", nullptr, sa);
    if (!a) return failv(v, "C15.valid-config-rejected", std::string("initialisation from grammar-valid lines failed: ") + ares_strerror(sa));
    Snap A = snapshot(a); bool rok = ranges_ok(a, v); ares_destroy(a); if (!rok) return false;
    ares_channel_t *b = init_from(join_lines(twin), "", nullptr, sb);
    if (!b) return failv(v, "C15.junk-line-breaks-initialisation", std::string("with junk lines inserted initialisation fails: ") + ares_strerror(sb));
    Snap B = snapshot(b); rok = ranges_ok(b, v); ares_destroy(b); if (!rok) return false;
    std::string d = diff(A, B); if (!d.empty()) return failv(v, "C15.junk-line-changes-configuration", d);
    stats().count("c15.resolv_pairs");
    return true;
  }
  if (c.kind == "nss" || c.kind == "svc") {
    auto run = [&](const std::vector<std::string> &lines, std::string &lk) { ares_sysconfig_t sc; memset(&sc, 0, sizeof sc); std::string t = join_lines(lines); ares_buf_t *buf = ares_buf_create_const((const unsigned char *)t.data(), t.size()); if (!buf) return (int)ARES_ENOMEM;
      int st = ares_sysconfig_process_buf(nullptr, &sc, buf, c.kind == "nss" ? vf_parse_nsswitch_line : vf_parse_svcconf_line); ares_buf_destroy(buf); lk = sc.lookups ? sc.lookups : "(unset)"; ares_free(sc.lookups); return st; };
    std::string la, lb; int sa = run(c.valid, la), sb = run(twin, lb);
    if (sa != ARES_SUCCESS || sb != ARES_SUCCESS) return failv(v, "C15.line-parser-error", std::string(ares_strerror(sa)) + " / " + ares_strerror(sb));
    if (la != lb) return failv(v, "C15.junk-line-changes-configuration", c.kind + " lookups '" + la + "' vs '" + lb + "'");
    for (char ch2 : lb) if (lb != "(unset)" && ch2 != 'b' && ch2 != 'f') return failv(v, "C15.range.lookups", lb);
    stats().count("c15." + c.kind + "_pairs");
    return true;
  }
  if (c.kind == "hosts") {
    auto run = [&](const std::vector<std::string> &lines, std::vector<std::string> &res) { int st = 0; ares_channel_t *ch = init_from("", join_lines(lines), "f", st); if (!ch) return st;
      for (auto &q : c.queries) for (int fam : {AF_INET, AF_INET6}) { HostRes r; ares_gethostbyname(ch, q.c_str(), fam, host_cb, &r); res.push_back(q + "/" + std::to_string(fam) + " -> " + std::to_string(r.status) + " " + r.text); }
      ares_destroy(ch); return (int)ARES_SUCCESS; };
    std::vector<std::string> ra, rb; int sa = run(c.valid, ra), sb = run(twin, rb);
    if (sa != ARES_SUCCESS || sb != ARES_SUCCESS) return failv(v, "C15.hosts-init-failed", std::string(ares_strerror(sa)) + " / " + ares_strerror(sb));
    for (size_t i = 0; i < ra.size() && i < rb.size(); i++) if (ra[i] != rb[i]) return failv(v, "C15.junk-line-changes-hosts-lookup", ra[i] + "   vs   " + rb[i]);
    for (auto &r : ra) if (r.find("-> 0 ") != std::string::npos) { stats().count("c15.hosts_hits"); break; }
    stats().count("c15.hosts_pairs");
    return true;
  }
  if (c.kind == "aliases") {
    auto run = [&](const std::vector<std::string> &lines, std::vector<std::string> &res) { std::string ap = write_file("aliases", join_lines(lines)); setenv("HOSTALIASES", ap.c_str(), 1); int st = 0; ares_channel_t *ch = init_from("", "", nullptr, st); if (!ch) return st;
      for (auto &q : c.queries) { char *alias = nullptr; ares_status_t s2 = ares_lookup_hostaliases(ch, q.c_str(), &alias); res.push_back(q + " -> " + std::to_string((int)s2) + " " + (alias ? alias : "")); if (s2 == ARES_SUCCESS && !alias) res.back() += " <success without alias>"; ares_free(alias); }
      ares_destroy(ch); unsetenv("HOSTALIASES"); return (int)ARES_SUCCESS; };
    std::vector<std::string> ra, rb; int sa = run(c.valid, ra), sb = run(twin, rb);
    if (sa != ARES_SUCCESS || sb != ARES_SUCCESS) return failv(v, "C15.aliases-init-failed", std::string(ares_strerror(sa)) + " / " + ares_strerror(sb));
    for (size_t i = 0; i < ra.size() && i < rb.size(); i++) if (ra[i] != rb[i]) return failv(v, "C15.junk-line-changes-alias-lookup", ra[i] + "   vs   " + rb[i]);
    for (auto &r : ra) if (r.find("-> 0 ") != std::string::npos) { stats().count("c15.alias_hits"); break; }
    stats().count("c15.aliases_pairs");
    return true;
  }
  if (c.kind == "sortlist" || c.kind == "csv" || c.kind == "options") {
    // arbitrary strings through the three string setters: an error or a configuration within range, never a crash / leak / hang
    int st = 0; ares_channel_t *ch = init_from("", "", nullptr, st); if (!ch) return failv(v, "C15.init-failed", ares_strerror(st));
    std::string s = c.str; nontrivial = !s.empty(); int rc = 0;
    if (c.kind == "sortlist") { if (s.size() & 1) ares_set_sortlist(ch, "10.0.0.0/8 172.16.0.0/255.240.0.0"); Snap before = snapshot(ch); rc = ares_set_sortlist(ch, s.c_str()); if (rc != ARES_SUCCESS) { Snap after = snapshot(ch); std::string d = diff(before, after); if (!d.empty()) { ares_destroy(ch); return failv(v, "C15.failed-setter-changed-configuration", d); } } stats().count(rc == ARES_SUCCESS ? "c15.sortlist_accepted" : "c15.sortlist_rejected"); }
    else if (c.kind == "csv") { Snap before = snapshot(ch); rc = (s.size() & 1) ? ares_set_servers_ports_csv(ch, s.c_str()) : ares_set_servers_csv(ch, s.c_str()); Snap after = snapshot(ch); if (rc != ARES_SUCCESS) { std::string d = diff(before, after); if (!d.empty()) { ares_destroy(ch); return failv(v, "C15.failed-setter-changed-configuration", d); } } stats().count(rc == ARES_SUCCESS ? "c15.csv_accepted" : "c15.csv_rejected"); if (rc == ARES_SUCCESS && !csv_entries_independent(s, (s.size() & 1) != 0, v)) { ares_destroy(ch); return false; } }
    else { ares_sysconfig_t sc; memset(&sc, 0, sizeof sc); rc = ares_sysconfig_set_options(&sc, s.c_str()); if (rc != ARES_SUCCESS && rc != ARES_ENOMEM) { ares_destroy(ch); return failv(v, "C15.options-string-error", ares_strerror(rc)); } stats().count("c15.options_strings"); }
    bool rok = ranges_ok(ch, v, c.kind == "csv"); ares_destroy(ch); return rok;   // (an empty list given to the setter legitimately clears the servers)
  }
  return failv(v, "harness.unknown-kind", c.kind);
}

// ------------------------------------------------------------------ C16
struct AppOpts { struct ares_options o; int mask = 0; std::vector<std::string> domains; std::vector<char *> domp; std::string lookups; std::vector<struct apattern> sort; std::vector<struct in_addr> servers; std::string rpath, hpath;
  std::map<std::string, std::string> expect; };   // expect: snapshot field -> value the application asked for (only for values initialisation accepts)
static void apply_opt(AppOpts &a, const std::string &k, const std::string &val) {
  long n = atol(val.c_str());
  if (k == "flags") { a.o.flags = (int)n; a.mask |= ARES_OPT_FLAGS; a.expect["flags"] = std::to_string((unsigned)n); }
  else if (k == "timeoutms") { if (a.mask & ARES_OPT_TIMEOUT) return;   /* one field carries both forms */ a.o.timeout = (int)n; a.mask |= ARES_OPT_TIMEOUTMS; if (n > 0) a.expect["timeout"] = std::to_string(n); }
  else if (k == "timeout") { if (!(a.mask & ARES_OPT_TIMEOUTMS)) { a.o.timeout = (int)n; a.mask |= ARES_OPT_TIMEOUT; if (n > 0) a.expect["timeout"] = std::to_string(n * 1000); } }
  else if (k == "tries") { a.o.tries = (int)n; a.mask |= ARES_OPT_TRIES; if (n > 0) a.expect["tries"] = std::to_string(n); }
  else if (k == "ndots") { a.o.ndots = (int)n; a.mask |= ARES_OPT_NDOTS; if (n >= 0) a.expect["ndots"] = std::to_string(n); }
  else if (k == "maxtimeout") { a.o.maxtimeout = (int)n; a.mask |= ARES_OPT_MAXTIMEOUTMS; if (n > 0) a.expect["maxtimeout"] = std::to_string(n); }
  else if (k == "udpport") { a.o.udp_port = (unsigned short)n; a.mask |= ARES_OPT_UDP_PORT; a.expect["udp_port"] = std::to_string((unsigned short)n); }
  else if (k == "tcpport") { a.o.tcp_port = (unsigned short)n; a.mask |= ARES_OPT_TCP_PORT; a.expect["tcp_port"] = std::to_string((unsigned short)n); }
  else if (k == "rotate") { a.mask |= ARES_OPT_ROTATE; a.mask &= ~ARES_OPT_NOROTATE; a.expect["rotate"] = "1"; }
  else if (k == "norotate") { a.mask |= ARES_OPT_NOROTATE; a.mask &= ~ARES_OPT_ROTATE; a.expect["rotate"] = "0"; }
  else if (k == "ednspsz") { a.o.ednspsz = (int)n; a.mask |= ARES_OPT_EDNSPSZ; if (n > 0) a.expect["ednspsz"] = std::to_string(n); }
  else if (k == "udpmax") { a.o.udp_max_queries = (int)n; a.mask |= ARES_OPT_UDP_MAX_QUERIES; if (n > 0) a.expect["udpmax"] = std::to_string(n); }
  else if (k == "qcache") { a.o.qcache_max_ttl = (unsigned)n; a.mask |= ARES_OPT_QUERY_CACHE; a.expect["qcache"] = std::to_string((unsigned)n); }
  else if (k == "failover") { unsigned c1 = 0; unsigned long d1 = 0; sscanf(val.c_str(), "%u/%lu", &c1, &d1); a.o.server_failover_opts.retry_chance = (unsigned short)c1; a.o.server_failover_opts.retry_delay = d1; a.mask |= ARES_OPT_SERVER_FAILOVER; a.expect["failover"] = std::to_string((unsigned short)c1) + "/" + std::to_string(d1); }
  else if (k == "lookups") { a.lookups = val; a.mask |= ARES_OPT_LOOKUPS; a.expect["lookups"] = val; }
  else if (k == "domains") { a.domains.clear(); std::istringstream ds(val == "-" ? "" : val); std::string d; while (std::getline(ds, d, ',')) if (!d.empty()) a.domains.push_back(d); a.mask |= ARES_OPT_DOMAINS; if (!a.domains.empty()) { std::string e; for (auto &x : a.domains) e += x + " "; a.expect["domains"] = e; } }
  else if (k == "sortlist") { a.sort.clear(); std::istringstream ds(val == "-" ? "" : val); std::string d; while (std::getline(ds, d, ',')) { struct apattern p; memset(&p, 0, sizeof p); size_t sl = d.find('/'); std::string ip = d.substr(0, sl); int m = sl == std::string::npos ? 32 : atoi(d.c_str() + sl + 1); if (inet_pton(AF_INET, ip.c_str(), &p.addr.addr.addr4) == 1) { p.addr.family = AF_INET; p.mask = (unsigned char)m; a.sort.push_back(p); } else if (inet_pton(AF_INET6, ip.c_str(), &p.addr.addr.addr6) == 1) { p.addr.family = AF_INET6; p.mask = (unsigned char)m; a.sort.push_back(p); } } a.mask |= ARES_OPT_SORTLIST; if (!a.sort.empty()) a.expect["sortlist"] = sortlist_str(a.sort.data(), a.sort.size()); }
  else if (k == "servers4") { a.servers.clear(); std::istringstream ds(val == "-" ? "" : val); std::string d; std::string e; while (std::getline(ds, d, ',')) { struct in_addr x; if (inet_pton(AF_INET, d.c_str(), &x) == 1) { a.servers.push_back(x); } } a.mask |= ARES_OPT_SERVERS; }
}
static void finish_opts(AppOpts &a, const std::string &rpath, const std::string &hpath) {
  a.rpath = rpath; a.hpath = hpath; a.o.resolvconf_path = (char *)a.rpath.c_str(); a.o.hosts_path = (char *)a.hpath.c_str(); a.mask |= ARES_OPT_RESOLVCONF | ARES_OPT_HOSTS_FILE;
  a.domp.clear(); for (auto &d : a.domains) a.domp.push_back((char *)d.c_str()); a.o.domains = a.domp.empty() ? nullptr : a.domp.data(); a.o.ndomains = (int)a.domp.size();
  a.o.lookups = (a.mask & ARES_OPT_LOOKUPS) ? (char *)a.lookups.c_str() : nullptr;
  a.o.sortlist = a.sort.empty() ? nullptr : a.sort.data(); a.o.nsort = (int)a.sort.size();
  a.o.servers = a.servers.empty() ? nullptr : a.servers.data(); a.o.nservers = (int)a.servers.size();
}
// Interface names for link-local servers.  The sandbox only has "lo"; the channel's interface callbacks are the documented extension point
// (struct ares_socket_functions_ex), so the C16 channels get a table of realistic names.  No I/O happens in this harness: the socket members fail.
static const char *kIfaces[] = {"", "lo", "br-lan", "eth0.100", "wl_0", "eth1", "wlx00c0ca123456"};   // the last one has IF_NAMESIZE-1 characters, the longest a system allows
static ares_socket_t vi_socket(int, int, int, void *) { return ARES_SOCKET_BAD; }
static int vi_close(ares_socket_t, void *) { return 0; }
static int vi_sso(ares_socket_t, ares_socket_opt_t, const void *, ares_socklen_t, void *) { return 0; }
static int vi_conn(ares_socket_t, const struct sockaddr *, ares_socklen_t, unsigned int, void *) { return -1; }
static ares_ssize_t vi_recv(ares_socket_t, void *, size_t, int, struct sockaddr *, ares_socklen_t *, void *) { return -1; }
static ares_ssize_t vi_send(ares_socket_t, const void *, size_t, int, const struct sockaddr *, ares_socklen_t, void *) { return -1; }
static unsigned int vi_n2i(const char *n, void *) { for (unsigned i = 1; i < sizeof kIfaces / sizeof *kIfaces; i++) if (!strcmp(n, kIfaces[i])) return i; return 0; }
static const char *vi_i2n(unsigned int i, char *b, size_t l, void *) { if (i < 1 || i >= sizeof kIfaces / sizeof *kIfaces) return nullptr; snprintf(b, l, "%s", kIfaces[i]); return b; }
static void install_ifaces(ares_channel_t *ch) {
  static struct ares_socket_functions_ex f; memset(&f, 0, sizeof f); f.version = 1; f.asocket = vi_socket; f.aclose = vi_close; f.asetsockopt = vi_sso; f.aconnect = vi_conn; f.arecvfrom = vi_recv; f.asendto = vi_send; f.aif_nametoindex = vi_n2i; f.aif_indextoname = vi_i2n;
  ares_set_socket_functions_ex(ch, &f, nullptr);
}
// Independent reading of a server list: what the application wrote (the harness's own item forms) and what the library prints are both
// parsed by this small parser into (address, udp port, tcp port, interface); the two lists must agree.  Nothing of the library is used here
// apart from inet_pton/inet_ntop of libc, so a server the library drops, reorders, or gives another port shows.
struct STup { std::string ip; unsigned up = 0, tp = 0; std::string iface; bool operator==(const STup &o) const { return ip == o.ip && up == o.up && tp == o.tp && iface == o.iface; } };
static std::string stup_str(const std::vector<STup> &v) { std::string o; for (auto &t : v) o += (o.empty() ? "" : " ") + t.ip + (t.iface.empty() ? "" : "%" + t.iface) + "/udp" + std::to_string(t.up) + "/tcp" + std::to_string(t.tp); return o.empty() ? "(none)" : o; }
static bool stup_host(std::string h, STup &t) {
  size_t pc = h.find('%'); if (pc != std::string::npos) { t.iface = h.substr(pc + 1); h = h.substr(0, pc); if (t.iface.empty()) return false; }
  unsigned char b[16]; char out[64];
  if (inet_pton(AF_INET, h.c_str(), b) == 1) { inet_ntop(AF_INET, b, out, sizeof out); t.ip = out; return true; }
  if (inet_pton(AF_INET6, h.c_str(), b) == 1) { inet_ntop(AF_INET6, b, out, sizeof out); t.ip = out; return true; }
  return false;
}
static bool stup_num(const std::string &s, unsigned &n) { if (s.empty() || s.size() > 5) return false; n = 0; for (char ch : s) { if (ch < '0' || ch > '9') return false; n = n * 10 + (unsigned)(ch - '0'); } return n <= 65535; }
static bool stup_item(std::string it, STup &t) {
  t = STup();
  if (it.compare(0, 6, "dns://") == 0) {
    it = it.substr(6); std::string q; size_t qm = it.find('?'); if (qm != std::string::npos) { q = it.substr(qm + 1); it = it.substr(0, qm); }
    std::string host, port;
    if (!it.empty() && it[0] == '[') { size_t e = it.find(']'); if (e == std::string::npos) return false; host = it.substr(1, e - 1); std::string r = it.substr(e + 1); if (!r.empty()) { if (r[0] != ':') return false; port = r.substr(1); } }
    else { size_t e = it.find(':'); host = it.substr(0, e); if (e != std::string::npos) port = it.substr(e + 1); }
    if (!stup_host(host, t)) return false;
    if (!port.empty() && !stup_num(port, t.up)) return false;
    t.tp = t.up;
    if (!q.empty()) { if (q.compare(0, 8, "tcpport=") != 0 || !stup_num(q.substr(8), t.tp)) return false; }
    return true;
  }
  if (it.find('|') != std::string::npos) { size_t b1 = it.find('|'), b2 = it.find('|', b1 + 1); if (b2 == std::string::npos) return false; if (!stup_host(it.substr(0, b1), t) || !t.iface.empty()) return false; return stup_num(it.substr(b1 + 1, b2 - b1 - 1), t.up) && stup_num(it.substr(b2 + 1), t.tp); }
  std::string iface; size_t pc = it.find('%'); if (pc != std::string::npos) { iface = it.substr(pc + 1); it = it.substr(0, pc); if (iface.empty()) return false; }
  std::string host = it, port;
  if (!it.empty() && it[0] == '[') { size_t e = it.find(']'); if (e == std::string::npos) return false; host = it.substr(1, e - 1); std::string r = it.substr(e + 1); if (!r.empty()) { if (r[0] != ':') return false; port = r.substr(1); } }
  else if (it.find(':') != std::string::npos && it.find(':') == it.rfind(':')) { size_t e = it.find(':'); host = it.substr(0, e); port = it.substr(e + 1); }
  if (!stup_host(host, t) || !t.iface.empty()) return false;
  t.iface = iface;
  if (!port.empty()) { if (!stup_num(port, t.up)) return false; t.tp = t.up; }
  return true;
}
// list -> tuples; port 0 means "the channel's default port, else 53"; an exact duplicate (address and both ports) is configured once
static bool stup_list(const std::string &csv, unsigned defu, unsigned deft, std::vector<STup> &out) {
  out.clear(); std::istringstream ds(csv); std::string d;
  while (std::getline(ds, d, ',')) { if (d.empty()) continue; STup t; if (!stup_item(d, t)) return false;
    if (t.ip.compare(0, 4, "fec0") == 0 || (t.ip.compare(0, 4, "fe80") == 0 && t.iface.empty())) return false;   // outside what the harness writes
    { unsigned ix = 0; if (!t.iface.empty() && stup_num(t.iface, ix)) { if (ix < 1 || ix >= sizeof kIfaces / sizeof *kIfaces) return false; t.iface = kIfaces[ix]; } else if (!t.iface.empty() && !vi_n2i(t.iface.c_str(), nullptr)) return false; }
    if (!t.up) t.up = defu ? defu : 53; if (!t.tp) t.tp = deft ? deft : 53;
    bool dup = false; for (auto &x : out) if (x.ip == t.ip && x.up == t.up && x.tp == t.tp) dup = true; if (!dup) out.push_back(t); }
  return true;
}
// C15, server lists: what an entry means does not depend on its neighbours.  The list as a whole must configure what its entries configure one
// by one (in order, an exact duplicate once); in particular an entry that is ignored on its own is ignored in company.
static bool csv_entries_independent(const std::string &csv, bool ports, Verdict &v) {
  std::vector<std::string> items; { std::string cur; for (char ch : csv) { if (ch == ',' || ch == ' ') { if (!cur.empty()) items.push_back(cur); cur.clear(); } else cur += ch; } if (!cur.empty()) items.push_back(cur); }
  if (items.size() < 2 || items.size() > 8) return true;
  auto apply = [&](const std::string &l, std::vector<STup> &out, int &rc) -> bool { int st = 0; ares_channel_t *t = init_from("", "", nullptr, st); if (!t) return false; rc = ports ? ares_set_servers_ports_csv(t, l.c_str()) : ares_set_servers_csv(t, l.c_str()); bool ok = false; if (rc == ARES_SUCCESS) { char *g = ares_get_servers_csv(t); ok = stup_list(g ? g : "", 0, 0, out); ares_free_string(g); } ares_destroy(t); return ok; };
  std::vector<STup> whole; int rcw = 0; if (!apply(csv, whole, rcw)) return true;
  std::vector<STup> sum;
  for (auto &it : items) { std::vector<STup> one; int rc1 = 0; if (!apply(it, one, rc1)) { if (rc1 != ARES_SUCCESS && rc1 != ARES_ENOMEM) return failv(v, "C15.server-entry-accepted-only-in-company", "'" + it + "' alone is refused (" + ares_strerror(rc1) + ") but the list '" + csv + "' is accepted"); return true; }
    for (auto &t : one) { bool dup = false; for (auto &x : sum) if (x.ip == t.ip && x.up == t.up && x.tp == t.tp) dup = true; if (!dup) sum.push_back(t); } }
  if (!(sum == whole)) return failv(v, "C15.server-entry-depends-on-its-neighbours", "'" + csv + "' configures " + stup_str(whole) + " but its entries one by one configure " + stup_str(sum));
  stats().count("c15.csv_entry_independence_checked");
  return true;
}
// canonical form of a server list as the library prints it (through a scratch channel)
static bool user_wins(ares_channel_t *ch, const AppOpts &a, const std::string &expect_servers, const char *when, Verdict &v) {
  Snap s = snapshot(ch);
  for (auto &kv : a.expect) if (s.f[kv.first] != kv.second) return failv(v, "C16.application-setting-overridden", std::string(when) + ": " + kv.first + " was set by the application to '" + kv.second + "' but the channel has '" + s.f[kv.first] + "'");
  if (!expect_servers.empty() && s.f["servers"] != expect_servers) return failv(v, "C16.application-servers-overridden", std::string(when) + ": servers set by the application '" + expect_servers + "' but the channel has '" + s.f["servers"] + "'");
  return true;
}

static bool run_c16(const Case &c, Verdict &v, bool &nontrivial) {
  set_env(c);
  std::string rp = write_file("resolv.conf", join_lines(c.valid)), hp = write_file("hosts", "");
  AppOpts a; memset(&a.o, 0, sizeof a.o); for (auto &kv : c.opts) apply_opt(a, kv.first, kv.second); finish_opts(a, rp, hp);
  ares_channel_t *ch = nullptr; int st = ares_init_options(&ch, &a.o, a.mask);
  if (st != ARES_SUCCESS) { stats().count("c16.init_rejected"); return true; }   // a rejected combination says nothing about fidelity
  install_ifaces(ch);
  std::string expect_servers;
  if (!a.servers.empty()) { for (auto &x : a.servers) { char b[32]; inet_ntop(AF_INET, &x, b, sizeof b); unsigned short up = (a.mask & ARES_OPT_UDP_PORT) && a.o.udp_port ? a.o.udp_port : 53; (void)up; } }
  // servers through one of the setters
  bool need_uri = false;
  unsigned defu = (a.mask & ARES_OPT_UDP_PORT) ? a.o.udp_port : 0, deft = (a.mask & ARES_OPT_TCP_PORT) ? a.o.tcp_port : 0;
  std::vector<STup> exp_t; bool exp_known = false;
  if ((a.mask & ARES_OPT_SERVERS) && !a.servers.empty()) { std::string l; for (auto &x : a.servers) { char b[32]; inet_ntop(AF_INET, &x, b, sizeof b); l += (l.empty() ? "" : ",") + std::string(b); } exp_known = stup_list(l, defu, deft, exp_t); }
  auto servers_as_written = [&](const char *when) -> bool {
    if (!exp_known || !(ch->optmask & ARES_OPT_SERVERS)) { stats().count("c16.server_expectation_unknown"); return true; }
    char *got = ares_get_servers_csv(ch); std::string g = got ? got : ""; ares_free_string(got); std::vector<STup> have;
    if (!stup_list(g, 0, 0, have)) return failv(v, "C16.rendered-server-list-unreadable", std::string(when) + ": '" + g + "'");
    if (!(have == exp_t)) return failv(v, "C16.servers-differ-from-what-was-set", std::string(when) + ": the application set " + stup_str(exp_t) + " but the channel has " + stup_str(have) + " ('" + g + "')");
    stats().count("c16.server_lists_compared_with_input"); return true;
  };
  if (!servers_as_written("after ares_init_options")) { ares_destroy(ch); return false; }
  for (auto &kv : c.sets) {
    int rc = ARES_SUCCESS; const std::string &how = kv.first, &csv = kv.second;
    if (how == "csv") rc = ares_set_servers_csv(ch, csv.c_str()); else if (how == "portscsv") rc = ares_set_servers_ports_csv(ch, csv.c_str());
    else if (how == "legacy" || how == "legacyports") {
      // build the linked list from "addr" or "addr:udp:tcp" items
      std::vector<struct ares_addr_node> n4; std::vector<struct ares_addr_port_node> np; std::istringstream ds(csv); std::string d;
      while (std::getline(ds, d, ',')) { std::string ip = d; int up = 0, tp = 0; size_t bar = d.find('|'); if (bar != std::string::npos) { ip = d.substr(0, bar); sscanf(d.c_str() + bar + 1, "%d|%d", &up, &tp); }
        struct ares_addr_port_node x; memset(&x, 0, sizeof x); if (inet_pton(AF_INET, ip.c_str(), &x.addr.addr4) == 1) x.family = AF_INET; else if (inet_pton(AF_INET6, ip.c_str(), &x.addr.addr6) == 1) x.family = AF_INET6; else continue; x.udp_port = up; x.tcp_port = tp; np.push_back(x);
        struct ares_addr_node y; memset(&y, 0, sizeof y); y.family = x.family; memcpy(&y.addr, &x.addr, sizeof y.addr); n4.push_back(y); }
      for (size_t i = 0; i + 1 < np.size(); i++) { np[i].next = &np[i + 1]; n4[i].next = &n4[i + 1]; }
      if (how == "legacy") rc = ares_set_servers(ch, n4.empty() ? nullptr : n4.data()); else rc = ares_set_servers_ports(ch, np.empty() ? nullptr : np.data());
    }
    if (rc == ARES_SUCCESS) { exp_known = stup_list(csv, defu, deft, exp_t); if (!servers_as_written(("after the " + how + " setter").c_str())) { ares_destroy(ch); return false; } }
    if (rc == ARES_SUCCESS) { char *got = ares_get_servers_csv(ch); expect_servers = got ? got : ""; ares_free_string(got); if (expect_servers.find("dns://") != std::string::npos || expect_servers.find('[') != std::string::npos || expect_servers.find('%') != std::string::npos) need_uri = true; stats().count("c16.server_sets_applied"); } else stats().count("c16.server_sets_rejected");
  }
  if (c.has_sl) { if (ares_set_sortlist(ch, c.sl.c_str()) == ARES_SUCCESS) {
      // what the string says, read independently: "addr/bits" or a bare address with its classful mask (ares_set_sortlist(3))
      std::vector<struct apattern> want; bool known = true; std::istringstream ts(c.sl); std::string tok;
      while (known && ts >> tok) { struct apattern p; memset(&p, 0, sizeof p); size_t sl = tok.find('/'); std::string ip = tok.substr(0, sl); unsigned bits = 0;
        if (inet_pton(AF_INET, ip.c_str(), &p.addr.addr.addr4) != 1) { known = false; break; } p.addr.family = AF_INET;
        if (sl != std::string::npos) { if (!stup_num(tok.substr(sl + 1), bits) || bits > 32) { known = false; break; } }
        else { unsigned o1 = ((const unsigned char *)&p.addr.addr.addr4)[0]; bits = o1 < 128 ? 8 : (o1 < 192 ? 16 : 24); }
        p.mask = (unsigned char)bits; want.push_back(p); }
      std::string have = snapshot(ch).f["sortlist"];
      if (known && !want.empty()) { std::string w = sortlist_str(want.data(), want.size()); if (w != have) { ares_destroy(ch); return failv(v, "C16.sortlist-differs-from-what-was-set", "ares_set_sortlist('" + c.sl + "') should give '" + w + "' but the channel has '" + have + "'"); } stats().count("c16.sortlists_compared_with_input"); }
      a.expect["sortlist"] = have; } }
  if (c.lip4) ares_set_local_ip4(ch, c.lip4);
  if (c.lip6.size() == 16) ares_set_local_ip6(ch, (const unsigned char *)c.lip6.data());
  if (!c.ldev.empty()) ares_set_local_dev(ch, c.ldev.c_str());
  int bits = 0; for (int m = a.mask; m; m >>= 1) bits += m & 1;
  nontrivial = bits >= 5 && (need_uri || !c.valid.empty());
  bool ok = true;
  // (1) the application's explicit settings hold after initialisation ...
  ok = ok && user_wins(ch, a, (ch->optmask & ARES_OPT_SERVERS) ? expect_servers : "", "after initialisation", v);
  // (2) ... and after every reinit, whatever the (new) resolv.conf and the environment say
  if (ok && c.reinit) { write_file("resolv.conf", join_lines(c.rc2)); ares_reinit(ch); stats().count("c16.reinits"); ok = servers_as_written("after ares_reinit") && user_wins(ch, a, (ch->optmask & ARES_OPT_SERVERS) ? expect_servers : "", "after ares_reinit", v); write_file("resolv.conf", join_lines(c.reinit ? c.rc2 : c.valid)); }
  Snap S = ok ? snapshot(ch) : Snap();
  // After a reinit with a changed resolv.conf the channel may legitimately keep system-derived values the new file no longer mentions, while a
  // duplicate reads the current file afresh: only what the application supplied is comparable then.
  std::set<std::string> sysderived; if (c.reinit) for (auto &kv : S.f) { bool app = a.expect.count(kv.first) || kv.first == "local_dev" || kv.first == "local_ip4" || kv.first == "local_ip6" || (kv.first == "servers" && (ch->optmask & ARES_OPT_SERVERS)) || kv.first == "optmask"; if (!app) sysderived.insert(kv.first); }
  // (3) the server list rendered as text and fed back reproduces itself
  if (ok) { int s2 = 0; ares_channel_t *t = init_from("", "", nullptr, s2); if (t) { install_ifaces(t); std::string csv = S.f["servers"]; int rc = ares_set_servers_ports_csv(t, csv.c_str());
      if (rc != ARES_SUCCESS) ok = failv(v, "C16.rendered-server-list-rejected", "ares_get_servers_csv gave '" + csv + "' which ares_set_servers_ports_csv rejects: " + ares_strerror(rc));
      else { char *got = ares_get_servers_csv(t); std::string g = got ? got : "(null)"; ares_free_string(got); if (g != csv) ok = failv(v, "C16.server-list-text-round-trip", "'" + csv + "' fed back gives '" + g + "'"); else stats().count("c16.csv_round_trips"); }
      ares_destroy(t); } }
  // (4) ares_dup gives the same effective settings, server list and local bindings
  if (ok) { ares_channel_t *d = nullptr; int rc = ares_dup(&d, ch); if (rc != ARES_SUCCESS || !d) ok = failv(v, "C16.dup-failed", ares_strerror(rc)); else { Snap D = snapshot(d); std::string df = diff(S, D, sysderived); ares_destroy(d); if (!df.empty()) ok = failv(v, "C16.dup-differs", df); else stats().count("c16.dups_compared"); } }
  // (5) saved options initialise an equal channel (servers only where the legacy structure can express them: IPv4, default ports)
  if (ok) { struct ares_options so; int sm = 0; memset(&so, 0, sizeof so); int rc = ares_save_options(ch, &so, &sm);
    if (rc != ARES_SUCCESS) ok = failv(v, "C16.save-failed", ares_strerror(rc));
    else { ares_channel_t *n = nullptr; int r2 = ares_init_options(&n, &so, sm);
      if (r2 != ARES_SUCCESS || !n) ok = failv(v, "C16.saved-options-rejected", ares_strerror(r2));
      else { Snap N = snapshot(n); std::set<std::string> skip = {"local_dev", "local_ip4", "local_ip6"}; skip.insert(sysderived.begin(), sysderived.end()); bool expressible = S.f["servers"].find("dns://") == std::string::npos && S.f["servers"].find('[') == std::string::npos && S.f["servers"].find(':') == std::string::npos; if (!expressible || !(ch->optmask & ARES_OPT_SERVERS)) skip.insert("servers"); if (skip.count("servers") && (ch->optmask & ARES_OPT_SERVERS)) skip.insert("optmask");
        std::string df = diff(S, N, skip); if (!df.empty()) ok = failv(v, "C16.save-init-differs", df); else stats().count("c16.save_init_compared");
        // ... and saving again gives the same options
        struct ares_options so2; int sm2 = 0; memset(&so2, 0, sizeof so2); if (ok && ares_save_options(n, &so2, &sm2) == ARES_SUCCESS) { if (sm2 != sm && !skip.count("optmask")) ok = failv(v, "C16.save-init-save-mask-differs", std::to_string(sm) + " vs " + std::to_string(sm2)); ares_destroy_options(&so2); }
        ares_destroy(n); }
      ares_destroy_options(&so); } }
  ares_destroy(ch);
  return ok;
}

// ------------------------------------------------------------------ generators (choice bytes -> case text)
static const char *kDomains[] = {"example.test", "a.test", "b.c.test", "corp.example", "x"};
static std::string gen_ip(Chooser &c, bool allow6 = true) {
  unsigned k = c.pick(allow6 ? 6 : 3);
  if (k < 3) return std::to_string(1 + c.pick(223)) + "." + std::to_string(c.pick(256)) + "." + std::to_string(c.pick(256)) + "." + std::to_string(1 + c.pick(254));
  if (k == 3) return "2001:db8::" + std::to_string(1 + c.pick(9));
  if (k == 4) return "fd00:" + std::to_string(c.pick(10)) + "::" + std::to_string(1 + c.pick(99));
  return "::1";
}
static std::string gen_valid_resolv(Chooser &c) {
  switch (c.pick(9)) {
    case 0: case 1: return "nameserver " + gen_ip(c);
    case 2: { std::string s = "search"; unsigned n = 1 + c.pick(4); for (unsigned i = 0; i < n; i++) s += std::string(" ") + kDomains[c.pick(5)]; return s; }
    case 3: return std::string("domain ") + kDomains[c.pick(5)];
    case 4: { std::string s = "options"; unsigned n = 1 + c.pick(4); for (unsigned i = 0; i < n; i++) { switch (c.pick(6)) { case 0: s += " ndots:" + std::to_string(c.pick(16)); break; case 1: s += " timeout:" + std::to_string(1 + c.pick(30)); break; case 2: s += " attempts:" + std::to_string(1 + c.pick(5)); break; case 3: s += " rotate"; break; case 4: s += " retrans:" + std::to_string(1 + c.pick(9)); break; default: s += " retry:" + std::to_string(1 + c.pick(4)); } } return s; }
    case 5: { std::string s = "sortlist"; unsigned n = 1 + c.pick(3); for (unsigned i = 0; i < n; i++) { s += " " + gen_ip(c, false); if (c.chance(1, 2)) s += "/" + std::string(c.chance(1, 2) ? std::to_string(8 + c.pick(25)) : "255.255.0.0"); } return s; }
    case 6: return std::string("lookup ") + (c.chance(1, 2) ? "file bind" : (c.chance(1, 2) ? "bind file" : "bind"));
    case 7: return "nameserver [" + gen_ip(c) + "]:" + std::to_string(1 + c.pick(65535));
    default: return std::string("options ndots:") + std::to_string(c.pick(4));
  }
}
static std::string gen_junk_token(Chooser &c) { std::string s; unsigned n = 1 + c.pick(c.chance(1, 6) ? 700 : 24); for (unsigned i = 0; i < n; i++) { unsigned char b = (unsigned char)c.pick(256); if (b == '\n' || b == 0) b = '?'; s += (char)b; } return s; }
// junk that must change nothing.  kind 0-2: unknown keyword / comment / binary or over-long; kind 3: a known keyword with a malformed value
static std::string gen_junk_resolv(Chooser &c, unsigned &kind) {
  kind = c.pick(4);
  if (kind == 0) { static const char *kw[] = {"nameservers", "srch", "option", "sort-list", "resolver", "foo", "NAMESERVER", "Search"}; return std::string(kw[c.pick(8)]) + " " + (c.chance(1, 2) ? gen_ip(c) : std::string(kDomains[c.pick(5)])); }
  if (kind == 1) return std::string(c.chance(1, 2) ? "#" : ";") + (c.chance(1, 2) ? " nameserver 9.9.9.9" : gen_junk_token(c));
  if (kind == 2) { std::string t = gen_junk_token(c); while (!t.empty() && (t[0] == ' ' || t[0] == '\t' || t[0] == '\r')) t.erase(0, 1); static const char *known[] = {"nameserver", "search", "domain", "options", "sortlist", "lookup", "hostresorder"}; for (auto k : known) if (t.compare(0, strlen(k), k) == 0) t = "x" + t; return t.empty() ? "??" : t; }
  static const char *bad[] = {"options timeout:0", "options attempts:0", "options retry:0", "options retrans:0", "options timeout:abc", "options bogus:1", "options :", "options timeout:", "options ::::", "nameserver 300.1.1.1", "nameserver fe80::1", "nameserver", "nameserver  ", "nameserver [1.2.3.4", "nameserver example.test",
                              "sortlist x/99", "sortlist 1.2.3.4/99", "sortlist 999.1.1.1", "search", "domain", "options", "lookup nonsense", "lookup", "sortlist 1.2.3.4/255.255.0.0.0", "options ndots", "options ndots:abc", "options ndots:-1", "options timeout:99999999999999999999", "nameserver 1.2.3.4:70000", "options attempts:abc", "sortlist ;", "sortlist ; ;  ;", "search ,", "search , ,,", "domain ,", "lookup ,", "options ,", "nameserver dns://1.2.3.4:99999", "nameserver dns://1.2.3.4:65536", "nameserver [1.2.3.4]:65536", "nameserver dns://[2001:db8::1]:70000?tcpport=53", "nameserver dns://1.2.3.4:53?tcpport=65536"};
  return bad[c.pick(sizeof bad / sizeof *bad)];
}
static std::string gen_case(const std::string &prop, const std::string &kind, const unsigned char *data, size_t size) {
  Chooser c(data, size); std::string o = "prop " + prop + "\nkind " + kind + "\n";
  auto v = [&](const std::string &l) { o += "v " + hexs(l) + "\n"; };
  auto j = [&](size_t pos, const std::string &l) { o += "j " + std::to_string(pos) + " " + hexs(l) + "\n"; };
  if (prop == "C15") {
    if (kind == "resolv") {
      unsigned nv = 1 + c.pick(6); for (unsigned i = 0; i < nv; i++) v(gen_valid_resolv(c));
      unsigned nj = 1 + c.pick(4); for (unsigned i = 0; i < nj; i++) { unsigned k; std::string l = gen_junk_resolv(c, k); j(c.pick(nv + 1), l); }
      if (c.chance(1, 4)) o += "env RES_OPTIONS " + hexs(c.chance(1, 2) ? "ndots:2 timeout:3" : "attempts:2 rotate") + "\n";
      if (c.chance(1, 6)) o += "env LOCALDOMAIN " + hexs(kDomains[c.pick(5)]) + "\n";
    } else if (kind == "nss" || kind == "svc") {
      bool nss = kind == "nss"; unsigned nv = 1 + c.pick(3);
      for (unsigned i = 0; i < nv; i++) { static const char *w[] = {"files", "dns", "bind", "local", "resolve", "file"}; std::string l = nss ? "hosts:" : "hosts ="; unsigned n = 1 + c.pick(3); for (unsigned k = 0; k < n; k++) l += std::string(k && !nss ? " , " : " ") + w[c.pick(6)]; v(l); }
      unsigned nj = 1 + c.pick(4); for (unsigned i = 0; i < nj; i++) { unsigned k = c.pick(5); std::string l; if (k == 0) l = "# hosts: dns"; else if (k == 1) l = nss ? "passwd: files dns" : "passwd = local"; else if (k == 2) { l = gen_junk_token(c); if (l.compare(0, 5, "hosts") == 0) l = "x" + l; } else if (k == 3) l = nss ? "hosts: mdns4_minimal [NOTFOUND=return]" : "hosts = nis"; else l = nss ? "hosts" : "hosts:"; j(c.pick(nv + 1), l); }
    } else if (kind == "hosts") {
      unsigned nv = 1 + c.pick(5); for (unsigned i = 0; i < nv; i++) { std::string l = gen_ip(c) + " h" + std::to_string(1 + c.pick(4)) + ".test"; if (c.chance(1, 3)) l += " alias" + std::to_string(c.pick(3)); v(l); }
      unsigned nj = 1 + c.pick(4); for (unsigned i = 0; i < nj; i++) { unsigned k = c.pick(5); std::string l; if (k == 0) l = "# 1.2.3.4 h1.test"; else if (k == 1) l = "notanip h" + std::to_string(1 + c.pick(4)) + ".test"; else if (k == 2) { l = gen_junk_token(c); } else if (k == 3) l = "1.2.3"; else l = "300.1.2.3 h1.test"; if (k == 2) { bool digit_first = !l.empty() && (isxdigit((unsigned char)l[0]) || l[0] == ':'); if (digit_first) l = "zz" + l; } j(c.pick(nv + 1), l); }
      for (int i = 1; i <= 4; i++) o += "q h" + std::to_string(i) + ".test\n"; o += "q alias0\nq alias1\n";
    } else if (kind == "aliases") {
      unsigned nv = 1 + c.pick(4); for (unsigned i = 0; i < nv; i++) v("a" + std::to_string(1 + c.pick(4)) + " target" + std::to_string(c.pick(5)) + ".example.test");
      unsigned nj = 1 + c.pick(4); for (unsigned i = 0; i < nj; i++) { unsigned k = c.pick(4); std::string l; if (k == 0) l = "# a1 evil.test"; else if (k == 1) l = "onlyonetoken"; else if (k == 2) { l = gen_junk_token(c); if (!l.empty() && l[0] == 'a') l = "z" + l; for (auto &ch : l) if (ch == ' ' || ch == '\t') ch = '_'; } else l = ""; j(c.pick(nv + 1), l); }
      for (int i = 1; i <= 4; i++) o += "q a" + std::to_string(i) + "\n";
    } else {
      std::string s; unsigned k = c.pick(4);
      if (k == 0) s = gen_junk_token(c);
      else if (kind == "sortlist") { unsigned n = 1 + c.pick(4); for (unsigned i = 0; i < n; i++) { s += (i ? " " : "") + gen_ip(c); if (c.chance(2, 3)) s += "/" + (c.chance(1, 4) ? std::to_string(c.pick(200)) : (c.chance(1, 2) ? std::to_string(c.pick(33)) : std::string("255.255.255.0"))); } if (k == 3) s += gen_junk_token(c); }
      else if (kind == "csv") { unsigned n = 1 + c.pick(4); for (unsigned i = 0; i < n; i++) { std::string ip = gen_ip(c); unsigned f = c.pick(5); if (f == 0) s += ip; else if (f == 1) s += "[" + ip + "]:" + std::to_string(c.pick(70000)); else if (f == 2) s += "dns://" + (ip.find(':') != std::string::npos ? "[" + ip + "]" : ip) + ":" + std::to_string(1 + c.pick(65535)) + "?tcpport=" + std::to_string(1 + c.pick(65535)); else if (f == 3) { unsigned g = c.pick(5); std::string ll = "fe80::" + std::to_string(1 + c.pick(9)); if (g == 0) s += ip + "%eth" + std::to_string(c.pick(3)); else if (g == 1) s += ll + "%lo"; else if (g == 2) s += "[" + ll + "]:53%lo"; else if (g == 3) s += "dns://[" + ll + "]:53"; else s += ll; } else s += ip + ":" + std::to_string(c.pick(70000)); s += (i + 1 < n) ? "," : ""; } if (k == 3) s += gen_junk_token(c); }
      else { unsigned n = 1 + c.pick(5); for (unsigned i = 0; i < n; i++) { static const char *ks[] = {"ndots", "timeout", "attempts", "rotate", "retrans", "retry", "use-vc", "bogus", ""}; s += std::string(i ? " " : "") + ks[c.pick(9)]; if (c.chance(2, 3)) s += ":" + (c.chance(1, 4) ? gen_junk_token(c).substr(0, 6) : std::to_string(c.chance(1, 4) ? 0 : c.pick(40))); } }
      for (auto &ch : s) if (ch == '\0') ch = '?';
      o += "s " + hexs(s) + "\n";
    }
    return o;
  }
  // ---- C16
  static const char *names[] = {"flags", "timeoutms", "timeout", "tries", "ndots", "maxtimeout", "udpport", "tcpport", "rotate", "norotate", "ednspsz", "udpmax", "qcache", "failover", "lookups", "domains", "sortlist", "servers4"};
  unsigned no = 2 + c.pick(9); std::set<std::string> used;
  for (unsigned i = 0; i < no; i++) { std::string k = names[c.pick(18)]; if (used.count(k)) continue; used.insert(k); std::string val = "1";
    if (k == "flags") { static const unsigned fl[] = {0, ARES_FLAG_EDNS, ARES_FLAG_STAYOPEN, ARES_FLAG_NOSEARCH | ARES_FLAG_EDNS, ARES_FLAG_NOALIASES, ARES_FLAG_IGNTC | ARES_FLAG_EDNS | ARES_FLAG_DNS0x20}; val = std::to_string(fl[c.pick(6)]); }
    else if (k == "timeoutms") { static const int t[] = {1, 250, 2000, 0, -1, 100000}; val = std::to_string(t[c.pick(6)]); } else if (k == "timeout") { static const int t[] = {1, 5, 0, -1}; val = std::to_string(t[c.pick(4)]); }
    else if (k == "tries") { static const int t[] = {1, 3, 7, 0, -1}; val = std::to_string(t[c.pick(5)]); } else if (k == "ndots") { static const int t[] = {0, 1, 2, 15, -1}; val = std::to_string(t[c.pick(5)]); }
    else if (k == "maxtimeout") { static const int t[] = {1000, 30000, 0, -1}; val = std::to_string(t[c.pick(4)]); } else if (k == "udpport" || k == "tcpport") { static const int t[] = {53, 5353, 1, 65535, 0}; val = std::to_string(t[c.pick(5)]); }
    else if (k == "ednspsz") { static const int t[] = {512, 1232, 4096, 0, -1}; val = std::to_string(t[c.pick(5)]); } else if (k == "udpmax") { static const int t[] = {1, 10, 0, -1}; val = std::to_string(t[c.pick(4)]); }
    else if (k == "qcache") { static const int t[] = {0, 1, 60, 3600}; val = std::to_string(t[c.pick(4)]); } else if (k == "failover") { static const char *t[] = {"10/5000", "0/0", "1/60000", "100/1"}; val = t[c.pick(4)]; }
    else if (k == "lookups") { static const char *t[] = {"b", "f", "bf", "fb"}; val = t[c.pick(4)]; }
    else if (k == "domains") { unsigned n = c.pick(4); val = n ? "" : "-"; for (unsigned q = 0; q < n; q++) val += std::string(q ? "," : "") + kDomains[c.pick(5)]; }
    else if (k == "sortlist") { unsigned n = c.pick(3); val = n ? "" : "-"; for (unsigned q = 0; q < n; q++) val += std::string(q ? "," : "") + gen_ip(c, c.chance(1, 3)) + "/" + std::to_string(8 + c.pick(17)); }
    else if (k == "servers4") { unsigned n = c.pick(4); val = n ? "" : "-"; for (unsigned q = 0; q < n; q++) val += std::string(q ? "," : "") + gen_ip(c, false); }
    o += "o " + k + " " + val + "\n"; }
  auto gen_port = [&](bool allow_zero) -> std::string { static const int pp[] = {53, 5353, 1, 65535, 853}; unsigned k = c.pick(8); if (k < 5) return std::to_string(pp[k]); if (k == 5 && allow_zero) return "0"; return std::to_string(1 + c.pick(65535)); };
  unsigned nsets = c.pick(3);
  for (unsigned i = 0; i < nsets; i++) { static const char *how[] = {"csv", "portscsv", "legacy", "legacyports"}; std::string h = how[c.pick(4)]; std::string csv; unsigned n = 1 + c.pick(4);
    for (unsigned q = 0; q < n; q++) { std::string ip = gen_ip(c); bool v6 = ip.find(':') != std::string::npos; std::string item;
      // link-local servers need an interface (names from kIfaces, also by index).  (Only the two text setters can express one.)
      if ((h == "csv" || h == "portscsv") && c.chance(1, 6)) { std::string ll = "fe80::" + std::to_string(1 + c.pick(50)); static const char *ifs[] = {"lo", "br-lan", "eth0.100", "wl_0", "eth1", "3", "1", "wlx00c0ca123456", "6"}; std::string ifn = ifs[c.pick(9)]; unsigned f = c.pick(3); item = f == 0 ? ll + "%" + ifn : (f == 1 ? "[" + ll + "]:" + gen_port(false) + "%" + ifn : "dns://[" + ll + "%" + ifn + "]:" + gen_port(false) + "?tcpport=" + gen_port(false)); csv += (q ? "," : "") + item; continue; }
      if (h == "legacy") item = ip; else if (h == "legacyports") item = ip + "|" + gen_port(true) + "|" + gen_port(true);
      else { unsigned f = c.pick(5); if (f == 0) item = ip; else if (f == 1) item = "[" + ip + "]:" + gen_port(false); else if (f == 2) item = "dns://" + (v6 ? "[" + ip + "]" : ip) + ":" + gen_port(false) + "?tcpport=" + gen_port(false); else if (f == 3 && !v6) item = ip + ":" + gen_port(false); else item = ip; }
      csv += (q ? "," : "") + item; }
    o += "set " + h + " " + csv + "\n"; }
  if (c.chance(1, 4)) o += "sl " + hexs(gen_ip(c, false) + "/" + std::to_string(8 + c.pick(17)) + (c.chance(1, 2) ? " " + gen_ip(c, false) : "")) + "\n";
  if (c.chance(1, 5)) o += "lip4 " + std::to_string(0x0a000001u + c.pick(1000)) + "\n";
  if (c.chance(1, 6)) o += "lip6 " + vf::hex(std::string("\xfd\x00\x00\x00\x00\x00\x00\x00\x00\x00\x00\x00\x00\x00\x00", 15) + (char)(1 + c.pick(200))) + "\n";
  if (c.chance(1, 5)) o += std::string("ldev ") + (c.chance(1, 2) ? "eth0" : "lo") + "\n";
  unsigned nv = c.pick(6); for (unsigned i = 0; i < nv; i++) v(c.chance(1, 5) ? std::string("options use-vc") : gen_valid_resolv(c));
  if (c.chance(1, 3)) o += "env RES_OPTIONS " + hexs(c.chance(1, 2) ? "ndots:7 timeout:9 attempts:4 rotate" : "use-vc ndots:3") + "\n";
  if (c.chance(1, 5)) o += "env LOCALDOMAIN " + hexs(kDomains[c.pick(5)]) + "\n";
  if (c.chance(1, 2)) { o += "reinit\n"; unsigned n2 = c.pick(6); for (unsigned i = 0; i < n2; i++) o += "rc2 " + hexs(c.chance(1, 5) ? std::string("options use-vc rotate") : gen_valid_resolv(c)) + "\n"; }
  return o;
}

namespace vf {
bool run_case(const std::string &text, std::string &sig, bool &nontrivial) {
  Case c; if (!parse_case(text, c)) { sig = "harness.unparseable-case"; return false; }
  Verdict v; long live0 = ledger().live; bool ok;
  if (c.prop == "C15") ok = run_c15(c, v, nontrivial); else if (c.prop == "C16") ok = run_c16(c, v, nontrivial); else { sig = "harness.unknown-prop"; return false; }
  for (const char *e : {"LOCALDOMAIN", "RES_OPTIONS", "HOSTALIASES"}) unsetenv(e);
  if (ok && ledger().live != live0) { ok = false; v.sig = c.prop + ".leak"; v.detail = std::to_string(ledger().live - live0) + " library allocations still live after the case"; }
  if (!ok) { sig = v.sig; if (!v.detail.empty()) msg("DETAIL %s\n", v.detail.substr(0, 1500).c_str()); }
  return ok;
}
}  // namespace vf

int main(int argc, char **argv) {
  ares_library_init_mem(ARES_LIB_INIT_ALL, ledger_malloc, ledger_free, ledger_realloc);
  char td[256]; snprintf(td, sizeof td, "%s/build/tmp/conf-%d", VERIF_DIR, (int)getpid()); mkdir((std::string(VERIF_DIR) + "/build/tmp").c_str(), 0755); mkdir(td, 0755); g_tmp = td;
  std::vector<Mode> modes;
  for (const char *kind : {"resolv", "nss", "svc", "hosts", "aliases", "sortlist", "csv", "options"}) { std::string k = kind; modes.push_back({"C15-" + k, [k] { auto bytes = rc::gen::scale(3.0, rc::gen::container<std::vector<uint8_t>>(rc::gen::arbitrary<uint8_t>())); return rc::gen::map(bytes, [k](std::vector<uint8_t> v) { return gen_case("C15", k, v.data(), v.size()); }); }}); }
  modes.push_back({"C16-c16", [] { auto bytes = rc::gen::scale(3.0, rc::gen::container<std::vector<uint8_t>>(rc::gen::arbitrary<uint8_t>())); return rc::gen::map(bytes, [](std::vector<uint8_t> v) { return gen_case("C16", "c16", v.data(), v.size()); }); }});
  int rc = rc_harness_main(argc, argv, modes);
  ares_library_cleanup();
  return rc;
}
