// Plain replay of a scenario file: no generator library in the loop (each shrunk failure is a regression check).
#include "sim_scn.hpp"

int main(int argc, char **argv) {
  setvbuf(stdout, nullptr, _IONBF, 0);
  ares_library_init_mem(ARES_LIB_INIT_ALL, vf::ledger_malloc, vf::ledger_free, vf::ledger_realloc);
  std::string path; for (int i = 1; i < argc; i++) { std::string a = argv[i]; if (a == "--replay" && i + 1 < argc) path = argv[++i]; }
  std::string text; if (path.empty() || !vf::read_file(path, text)) { vf::msg("usage: sim_replay --replay <scenario file>\n"); return 3; }
  std::string clean; { std::istringstream in(text); std::string l; while (std::getline(in, l)) { if (!l.empty() && l[0] == '#') continue; clean += l + "\n"; } }
  std::string prop = "C01"; { size_t p = clean.find("prop "); if (p == 0 || (p != std::string::npos && clean[p - 1] == '\n')) prop = clean.substr(p + 5, 3); }
  vf::stats().arm_watchdog();
  sim::RunResult r = sim::run_prop(clean, prop);
  ares_library_cleanup();
  if (!r.v.ok) { if (!r.v.detail.empty()) vf::msg("DETAIL %s\n", r.v.detail.substr(0, 1500).c_str()); vf::msg("FAIL %s\n", r.v.sig.c_str()); return 1; }
  vf::msg("PASS\n"); return 0;
}
