// Simulator part 2: scenario text -> execution against the real resolver; requests, callbacks (with re-entrant
// scripts), event-loop steps, virtual time, drain, destroy.  The text format is closed under line deletion.
#pragma once
#include "sim_world.hpp"
#include <sys/wait.h>
#include <sys/stat.h>

namespace sim {

struct Res { int family; Bytes addr; int ttl; unsigned port; };

struct Req {
  int id = 0; std::string kind = "query", name, script = "none"; int qtype = 1; int family = AF_INET; int ai_flags = 0; unsigned port = 0;
  bool started = false; int calls = 0; int status = -1; int timeouts = 0; int64_t t_start = 0, t_end = 0; uint64_t tick_start = 0, tick_end = 0, ev_end = 0; bool sync_done = false; bool in_start = false;
  bool accepted = true;            // entry point took the request (callback owed)
  int calls_after_destroy = 0; int parent = -1;
  size_t tx_at_start = 0, tx_at_end = 0; size_t prov_at_end = 0;
  std::vector<uint32_t> serials; std::vector<Res> addrs; std::vector<std::string> names; std::vector<std::pair<std::string, int>> cnames; std::vector<uint32_t> ttls; std::string canon;
  std::vector<uint32_t> rec_ttls;   // TTLs read through ares_dns_rr_get_ttl / decoded legacy bytes, answer section order
  int rcode = -1; bool got_record = false; bool got_soa = false; uint32_t soa_serial = 0, soa_ttl = 0;
  bool pending_at_cancel = false, pending_at_destroy = false; int status_at_cancel = -1;
  bool started_during_cancel = false;
  std::string api;                  // which result representation the callback got: dnsrec | bytes | addrinfo | hostent | nameinfo
};

struct Options {
  unsigned flags = 0; bool flags_set = false; int tries = 3, timeout = 2000, maxtimeout = 0, ndots = -1, rotate = 0, udpmax = 0; long qcache = -1; std::string lookups, domains; bool domains_set = false;
  int failover_chance = -1, failover_delay = 5000; int sockstate = 1, pendingwrite = 0, nonblock = 1, tfo = 0, ednspsz = 0; std::string process = "fds"; int c07 = 0; int mixed = 0; int cname_mod = 3; int asoa = 0; int nogsn = 0;
};

struct Verdict { bool ok = true; std::string sig, detail; };

struct ServerEv { int64_t t; std::string server; bool success; int flags; uint64_t ev; };

struct Sim {
  World w;
  ares_channel_t *ch = nullptr; bool destroyed = false; bool in_cancel = false; bool in_destroy = false;
  Options opt;
  std::map<int, Req> reqs; std::vector<int> order; int next_sub = 9000;
  std::vector<std::string> resolv_lines, hosts_lines, alias_lines; std::string sortlist;
  std::vector<std::string> server_specs;
  bool pending_write_flag = false;
  std::vector<ServerEv> server_events;
  std::vector<std::string> notes;          // monitor-relevant facts gathered online
  Verdict online;                           // first online violation (e.g. double callback)
  std::string tmpdir;
  size_t steps = 0, drain_steps = 0; bool stuck = false; bool budget_exhausted = false; bool astronomic = false; bool stuck_after_fault = false;
  size_t c07_checks = 0, c07_multi = 0; size_t idle_spins = 0; int64_t slow_total_us = 0;   // time that passed inside callbacks (the library stamps what it does in one processing call with the time the call began)
  std::vector<int64_t> reconfig_times;     // set_servers / reinit instants (cache must be empty afterwards)
  struct ServerSet { uint64_t ev; std::vector<std::string> list; }; std::vector<ServerSet> server_sets;   // configured lists over time (address strings as the library prints them)
  std::vector<uint64_t> reconfig_ticks; uint64_t tick = 0;   // logical order of events within one virtual instant
  struct TimeoutObs { int64_t t; long sec, usec; bool has; };
  std::vector<TimeoutObs> timeout_obs;

  // C14: the one refused allocation (0 = none yet); position in the logical order and what was in flight then
  bool c14 = false; uint64_t fault_tick = 0; size_t fault_pending = 0; bool fault_in_cancel = false; std::string fault_where;
  // outermost-library-call tracking: the handling of a refused allocation lasts until the API call it happened in has returned
  int lib_depth = 0; uint64_t fault_closed_tick = 0;
  std::vector<std::pair<int, uint64_t>> cancel_watch;   // (request, tick of the cancel) - see do_cancel
  void judge_cancel_watch() { for (auto &cw : cancel_watch) { auto it = reqs.find(cw.first); if (it == reqs.end()) continue; Req &r = it->second; if (c14 && fault_tick) continue;
      if (r.calls == 0) violate("C01.pending-after-cancel", "request " + std::to_string(r.id) + " (" + r.kind + ") was pending when ares_cancel was called from a callback and had still not completed when the library call it happened in returned");
      else if (r.status != ARES_ECANCELLED) violate("C01.completed-normally-after-cancel", "request " + std::to_string(r.id) + " (" + r.kind + ") was pending when ares_cancel was called, was not completed by it, and later completed with " + ares_strerror(r.status)); } cancel_watch.clear(); }
  struct LibCall { Sim &s; explicit LibCall(Sim &x) : s(x) { s.lib_depth++; } ~LibCall() { if (--s.lib_depth == 0) { if (s.fault_tick && !s.fault_closed_tick) s.fault_closed_tick = ++s.tick; if (!s.cancel_watch.empty()) s.judge_cancel_watch(); } } };
  void on_alloc_fault() { fault_tick = ++tick; fault_pending = 0; for (auto &kv : reqs) if (kv.second.started && kv.second.accepted && kv.second.calls == 0) fault_pending++; fault_in_cancel = in_cancel; }
  void violate(const std::string &sig, const std::string &detail) { if (online.ok) { online.ok = false; online.sig = sig; online.detail = detail; } }

  // ------------------------------------------------------------------ result extraction
  void absorb_msg(Req &r, const ref::Msg &m) {
    r.got_record = true;
    unsigned raw = m.rcode4; for (auto &rr : m.sec[2]) if (rr.type == ref::T_OPT) raw |= ((rr.ttl >> 24) & 0xff) << 4; r.rcode = (int)raw;
    for (auto &rr : m.sec[0]) {
      r.rec_ttls.push_back(rr.ttl);
      if (rr.type == ref::T_A && rr.fields.size() == 1) { const Bytes &a = rr.fields[0].bin; if ((unsigned char)a[0] == 10) r.serials.push_back(((unsigned char)a[1] << 8) | (unsigned char)a[2]); r.addrs.push_back({AF_INET, a, (int)rr.ttl, 0}); }
      else if (rr.type == ref::T_AAAA && rr.fields.size() == 1) { const Bytes &a = rr.fields[0].bin; if ((unsigned char)a[0] == 0xfd) r.serials.push_back(((unsigned char)a[12] << 8) | (unsigned char)a[13]); r.addrs.push_back({AF_INET6, a, (int)rr.ttl, 0}); }
      else if (rr.type == ref::T_TXT && rr.fields.size() == 1 && !rr.fields[0].abin.empty()) { const Bytes &t = rr.fields[0].abin[0]; if (t.compare(0, 7, "serial=") == 0) r.serials.push_back((uint32_t)atoi(t.c_str() + 7)); }
      else if (rr.type == ref::T_PTR && rr.fields.size() == 1 && !rr.fields[0].name.labels.empty()) { const Bytes &l = rr.fields[0].name.labels[0]; if (l.size() > 1 && l[0] == 'h') r.serials.push_back((uint32_t)atoi(l.c_str() + 1)); r.names.push_back(ref::escape_name(rr.fields[0].name)); }
      else if (rr.type == ref::T_CNAME && rr.fields.size() == 1) { r.cnames.push_back({ref::lower(ref::escape_name(rr.owner)), (int)rr.ttl}); const Bytes &l = rr.fields[0].name.labels.empty() ? Bytes() : rr.fields[0].name.labels[0]; size_t x = l.find('x'); if (l.size() > 1 && l[0] == 'c' && x != std::string::npos) r.serials.push_back((uint32_t)atoi(l.c_str() + x + 1)); }
    }
    for (auto &rr : m.sec[1]) if (rr.type == ref::T_SOA && rr.fields.size() == 7) { r.got_soa = true; r.soa_serial = rr.fields[2].num; r.soa_ttl = rr.ttl; r.serials.push_back(rr.fields[2].num); }
    std::sort(r.serials.begin(), r.serials.end()); r.serials.erase(std::unique(r.serials.begin(), r.serials.end()), r.serials.end());
  }
  void absorb_dnsrec(Req &r, const ares_dns_record_t *rec) {
    if (!rec) return;
    // read every field through the public getters (ASan sees any stale pointer), then decode independently
    unsigned char *buf = nullptr; size_t len = 0;
    for (size_t i = 0; i < ares_dns_record_rr_cnt(rec, ARES_SECTION_ANSWER); i++) (void)ares_dns_rr_get_ttl(ares_dns_record_rr_get_const(rec, ARES_SECTION_ANSWER, i));
    // getter view of TTLs (what a dnsrec consumer sees)
    std::vector<uint32_t> getter_ttls; for (size_t i = 0; i < ares_dns_record_rr_cnt(rec, ARES_SECTION_ANSWER); i++) getter_ttls.push_back(ares_dns_rr_get_ttl(ares_dns_record_rr_get_const(rec, ARES_SECTION_ANSWER, i)));
    if (ares_dns_write(rec, &buf, &len) == ARES_SUCCESS) { ref::Msg m; ref::Verdict v = ref::decode(buf, len, m); if (v.lenient_ok) absorb_msg(r, m); ares_free_string(buf); }
    r.rec_ttls = getter_ttls;
    const ares_dns_rr_t *soa = nullptr; for (size_t i = 0; i < ares_dns_record_rr_cnt(rec, ARES_SECTION_AUTHORITY); i++) { const ares_dns_rr_t *rr = ares_dns_record_rr_get_const(rec, ARES_SECTION_AUTHORITY, i); if (ares_dns_rr_get_type(rr) == ARES_REC_TYPE_SOA) soa = rr; }
    if (soa) r.soa_ttl = ares_dns_rr_get_ttl(soa);
  }

  // ------------------------------------------------------------------ callbacks
  struct CbArg { Sim *sim; int id; };
  std::vector<CbArg *> cbargs;
  CbArg *arg_for(int id) { CbArg *a = new CbArg{this, id}; cbargs.push_back(a); return a; }

  void completed(Req &r, int status, int timeouts) {
    r.calls++;
    if (destroyed) { r.calls_after_destroy++; violate("C01.callback-after-destroy", "request " + std::to_string(r.id) + " (" + r.kind + ") called back after ares_destroy returned"); return; }
    if (r.calls > 1) { violate("C01.callback-twice", "request " + std::to_string(r.id) + " (" + r.kind + " " + r.name + ") completed " + std::to_string(r.calls) + " times; statuses " + std::to_string(r.status) + " then " + std::to_string(status)); return; }
    r.status = status; r.timeouts = timeouts; r.t_end = w.now_us; r.tick_end = ++tick; r.ev_end = ++w.evseq; r.tx_at_end = w.txs.size(); r.prov_at_end = w.provs.size(); r.sync_done = r.in_start;
    if (in_cancel && !r.pending_at_cancel && !r.started_during_cancel) {}
    run_script(r);
  }
  void run_script(Req &r) {
    if (in_destroy) return;                       // man page: callbacks fired by ares_destroy start nothing
    const std::string &s = r.script;
    if (s == "none" || s.empty()) return;
    auto start_sub = [&](const std::string &kind) { Req n; n.id = next_sub++; n.kind = kind; n.name = "r" + std::to_string(n.id) + ".sub.test"; n.parent = r.id; n.started_during_cancel = in_cancel; reqs[n.id] = n; order.push_back(n.id); start(reqs[n.id]); };
    if (s == "new") start_sub("query");
    else if (s == "new2") { start_sub("query"); start_sub("getaddrinfo"); }
    else if (s == "newsearch") start_sub("search");
    else if (s == "newgai") start_sub("getaddrinfo");
    else if (s == "cancel") do_cancel();
    else if (s == "newcancel") { start_sub("query"); do_cancel(); }
    else if (s == "cancelnew") { do_cancel(); start_sub("query"); }
    else if (s == "slownew") { w.now_us += 7200LL * 1000000; slow_total_us += 7200LL * 1000000; start_sub("query"); }
    else if (s == "again" || s == "slowagain") {
      // ask the question of the first request of the scenario again from inside this callback (a cache hit or miss decided while a cache-owned record is lent out);
      // "slow": a few seconds pass inside the callback first
      if (s == "slowagain") { int64_t d = (int64_t)(1 + (r.id * 7) % 9) * 1000000; w.now_us += d; slow_total_us += d; }
      if (!order.empty()) { const Req &first = reqs[order.front()]; Req n; n.id = next_sub++; n.kind = "query"; n.name = first.name; n.qtype = first.qtype == 28 || first.qtype == 16 ? first.qtype : 1; n.parent = r.id; n.started_during_cancel = in_cancel; reqs[n.id] = n; order.push_back(n.id); start(reqs[n.id]); }
    }   // a slow callback: two hours pass before it starts its follow-up request
  }

  static void cb_dnsrec(void *arg, ares_status_t status, size_t timeouts, const ares_dns_record_t *rec) { CbArg *a = (CbArg *)arg; Req &r = a->sim->reqs[a->id]; r.api = "dnsrec"; if (r.calls == 0 && !a->sim->destroyed) a->sim->absorb_dnsrec(r, rec); a->sim->completed(r, (int)status, (int)timeouts);
    // the record is lent to the application for the whole duration of its callback, whatever the callback did in between (ASan sees a record released early)
    if (rec && !a->sim->destroyed) { size_t n = ares_dns_record_rr_cnt(rec, ARES_SECTION_ANSWER); for (size_t i = 0; i < n; i++) (void)ares_dns_rr_get_ttl(ares_dns_record_rr_get_const(rec, ARES_SECTION_ANSWER, i)); } }
  static void cb_bytes(void *arg, int status, int timeouts, unsigned char *abuf, int alen) {
    CbArg *a = (CbArg *)arg; Req &r = a->sim->reqs[a->id]; r.api = "bytes";
    if (r.calls == 0 && !a->sim->destroyed && abuf && alen > 0) { volatile unsigned char t = abuf[alen - 1]; (void)t; ref::Msg m; ref::Verdict v = ref::decode(abuf, (size_t)alen, m); if (v.lenient_ok) a->sim->absorb_msg(r, m); else a->sim->violate("C01.undecodable-bytes-to-callback", v.reason); }
    a->sim->completed(r, status, timeouts);
  }
  static void cb_addrinfo(void *arg, int status, int timeouts, struct ares_addrinfo *res) {
    CbArg *a = (CbArg *)arg; Req &r = a->sim->reqs[a->id]; r.api = "addrinfo";
    if (res) {
      if (r.calls == 0 && !a->sim->destroyed) {
        for (struct ares_addrinfo_node *n = res->nodes; n; n = n->ai_next) {
          Res x; x.family = n->ai_family; x.ttl = n->ai_ttl;
          if (n->ai_family == AF_INET) { const struct sockaddr_in *s = (const struct sockaddr_in *)n->ai_addr; x.addr.assign((const char *)&s->sin_addr, 4); x.port = ntohs(s->sin_port); if ((unsigned char)x.addr[0] == 10) r.serials.push_back(((unsigned char)x.addr[1] << 8) | (unsigned char)x.addr[2]); }
          else { const struct sockaddr_in6 *s = (const struct sockaddr_in6 *)n->ai_addr; x.addr.assign((const char *)&s->sin6_addr, 16); x.port = ntohs(s->sin6_port); if ((unsigned char)x.addr[0] == 0xfd) r.serials.push_back(((unsigned char)x.addr[12] << 8) | (unsigned char)x.addr[13]); }
          r.addrs.push_back(x);
        }
        for (struct ares_addrinfo_cname *c = res->cnames; c; c = c->next) r.cnames.push_back({c->alias ? ref::lower(c->alias) : "", c->ttl});
        if (res->name) r.canon = res->name;
        std::sort(r.serials.begin(), r.serials.end()); r.serials.erase(std::unique(r.serials.begin(), r.serials.end()), r.serials.end());
      }
      ares_freeaddrinfo(res);   // the application owns it
    }
    a->sim->completed(r, status, timeouts);
  }
  static void cb_host(void *arg, int status, int timeouts, struct hostent *h) {
    CbArg *a = (CbArg *)arg; Req &r = a->sim->reqs[a->id]; r.api = "hostent";
    if (h && r.calls == 0 && !a->sim->destroyed) {
      for (char **p = h->h_addr_list; p && *p; p++) { Res x; x.family = h->h_addrtype; x.ttl = -1; x.port = 0; x.addr.assign(*p, (size_t)h->h_length); if (r.kind == "gethostbyaddr") { r.addrs.push_back(x); continue; } if (x.family == AF_INET && (unsigned char)x.addr[0] == 10) r.serials.push_back(((unsigned char)x.addr[1] << 8) | (unsigned char)x.addr[2]); if (x.family == AF_INET6 && (unsigned char)x.addr[0] == 0xfd) r.serials.push_back(((unsigned char)x.addr[12] << 8) | (unsigned char)x.addr[13]); r.addrs.push_back(x); }
      for (char **p = h->h_aliases; p && *p; p++) r.names.push_back(*p);
      if (h->h_name) { r.canon = h->h_name; if (r.kind == "gethostbyaddr" && r.canon.size() > 1 && r.canon[0] == 'h') r.serials.push_back((uint32_t)atoi(r.canon.c_str() + 1)); }
      std::sort(r.serials.begin(), r.serials.end()); r.serials.erase(std::unique(r.serials.begin(), r.serials.end()), r.serials.end());
    }
    a->sim->completed(r, status, timeouts);
  }
  static void cb_nameinfo(void *arg, int status, int timeouts, char *node, char *service) {
    CbArg *a = (CbArg *)arg; Req &r = a->sim->reqs[a->id]; r.api = "nameinfo";
    if (r.calls == 0 && !a->sim->destroyed) { if (node) { r.canon = node; if (r.canon.size() > 1 && r.canon[0] == 'h') r.serials.push_back((uint32_t)atoi(r.canon.c_str() + 1)); } if (service) r.names.push_back(service); }
    a->sim->completed(r, status, timeouts);
  }
  static void cb_sockstate(void *data, ares_socket_t fd, int r, int wv) { World::s_sock_state(data, fd, r, wv); }
  static void cb_server_state(const char *server, ares_bool_t success, int flags, void *data) { Sim *s = (Sim *)data; s->server_events.push_back({s->w.now_us, server ? server : "", success == ARES_TRUE, flags, ++s->w.evseq}); }
  static void cb_pending_write(void *data) { ((Sim *)data)->pending_write_flag = true; }

  // ------------------------------------------------------------------ request start
  Bytes req_addr(const Req &r) const { Bytes a; if (r.family == AF_INET6) { a = Bytes(16, '\0'); a[0] = (char)0xfd; a[1] = 0x77; a[14] = (char)((r.id >> 8) & 0xff); a[15] = (char)(r.id & 0xff); } else { a = Bytes{(char)172, (char)16, (char)((r.id >> 8) & 0xff), (char)(r.id & 0xff)}; } return a; }
  void start(Req &r) {
    if (!ch || destroyed) return;
    LibCall lc(*this);
    r.started = true; r.t_start = w.now_us; r.tick_start = ++tick; r.tx_at_start = w.txs.size(); r.in_start = true;
    CbArg *arg = arg_for(r.id);
    int dnsclass = ARES_CLASS_IN;
    if (r.kind == "query") ares_query_dnsrec(ch, r.name.c_str(), (ares_dns_class_t)dnsclass, (ares_dns_rec_type_t)r.qtype, cb_dnsrec, arg, nullptr);
    else if (r.kind == "search") {
      ares_dns_record_t *rec = nullptr;
      if (ares_dns_record_create(&rec, 0, ARES_FLAG_RD, ARES_OPCODE_QUERY, ARES_RCODE_NOERROR) == ARES_SUCCESS && ares_dns_record_query_add(rec, r.name.c_str(), (ares_dns_rec_type_t)r.qtype, ARES_CLASS_IN) == ARES_SUCCESS) { ares_search_dnsrec(ch, rec, cb_dnsrec, arg); }
      else { r.accepted = false; }
      ares_dns_record_destroy(rec);
    } else if (r.kind == "send") {
      ares_dns_record_t *rec = nullptr;
      if (ares_dns_record_create(&rec, 0, ARES_FLAG_RD, ARES_OPCODE_QUERY, ARES_RCODE_NOERROR) == ARES_SUCCESS && ares_dns_record_query_add(rec, r.name.c_str(), (ares_dns_rec_type_t)r.qtype, ARES_CLASS_IN) == ARES_SUCCESS) { ares_send_dnsrec(ch, rec, cb_dnsrec, arg, nullptr); }
      else r.accepted = false;
      ares_dns_record_destroy(rec);
    } else if (r.kind == "lquery") ares_query(ch, r.name.c_str(), dnsclass, r.qtype, cb_bytes, arg);
    else if (r.kind == "lsearch") ares_search(ch, r.name.c_str(), dnsclass, r.qtype, cb_bytes, arg);
    else if (r.kind == "lsend") {
      unsigned char *q = nullptr; int ql = 0;
      if (ares_create_query(r.name.c_str(), dnsclass, r.qtype, 0, 1, &q, &ql, (opt.flags & ARES_FLAG_EDNS) ? 1232 : 0) == ARES_SUCCESS) { ares_send(ch, q, ql, cb_bytes, arg); ares_free_string(q); } else r.accepted = false;
    } else if (r.kind == "getaddrinfo") {
      struct ares_addrinfo_hints hints; memset(&hints, 0, sizeof hints); hints.ai_family = r.family; hints.ai_flags = r.ai_flags; hints.ai_socktype = SOCK_STREAM;
      std::string svc = r.port ? std::to_string(r.port) : ""; if (r.port) hints.ai_flags |= ARES_AI_NUMERICSERV;
      ares_getaddrinfo(ch, r.name.c_str(), r.port ? svc.c_str() : nullptr, &hints, cb_addrinfo, arg);
    } else if (r.kind == "gethostbyname") ares_gethostbyname(ch, r.name.c_str(), r.family, cb_host, arg);
    else if (r.kind == "hostsfile") { struct hostent *h = nullptr; int st = ares_gethostbyname_file(ch, r.name.c_str(), r.family == AF_INET6 ? AF_INET6 : AF_INET, &h); cb_host(arg, st, 0, h); if (h) ares_free_hostent(h); }   // synchronous sibling of gethostbyname: hosts file and loopback rule only
    else if (r.kind == "gethostbyaddr") { Bytes a = req_addr(r); ares_gethostbyaddr(ch, a.data(), (int)a.size(), r.family == AF_INET6 ? AF_INET6 : AF_INET, cb_host, arg); }
    else if (r.kind == "getnameinfo") {
      struct sockaddr_storage ss; memset(&ss, 0, sizeof ss); Bytes a = req_addr(r); ares_socklen_t sl;
      if (r.family == AF_INET6) { struct sockaddr_in6 *s = (struct sockaddr_in6 *)&ss; s->sin6_family = AF_INET6; memcpy(&s->sin6_addr, a.data(), 16); s->sin6_port = htons(80); sl = sizeof *s; }
      else { struct sockaddr_in *s = (struct sockaddr_in *)&ss; s->sin_family = AF_INET; memcpy(&s->sin_addr, a.data(), 4); s->sin_port = htons(80); sl = sizeof *s; }
      ares_getnameinfo(ch, (struct sockaddr *)&ss, sl, ARES_NI_LOOKUPHOST | ARES_NI_NAMEREQD, cb_nameinfo, arg);
    } else r.accepted = false;
    r.in_start = false;
  }

  void do_cancel() {
    if (!ch || destroyed) return;
    bool outer = !in_cancel;
    std::vector<int> pend; for (auto &kv : reqs) if (kv.second.started && kv.second.accepted && kv.second.calls == 0) pend.push_back(kv.first);
    if (outer) { in_cancel = true; for (int id : pend) reqs[id].pending_at_cancel = true; }
    uint64_t tick_before_cancel = tick;
    LibCall lc(*this);
    ares_cancel(ch);
    if (outer) {
      in_cancel = false;
      // A request whose own operation is somewhere up the call stack (ares_cancel was called from a callback that ran inside that request's send path) can only be
      // completed while the stack unwinds: it is judged when the outermost library call returns (cancel_watch), and must then have completed with ARES_ECANCELLED.
      if (lib_depth > 1) { for (int id : pend) if (reqs[id].calls == 0 && !reqs[id].in_start) cancel_watch.push_back({id, tick}); }
      for (int id : pend) { Req &r = reqs[id]; if (r.calls == 0 && !r.in_start && lib_depth <= 1 && !(c14 && fault_tick > tick_before_cancel)) violate("C01.pending-after-cancel", "request " + std::to_string(id) + " (" + r.kind + ") was pending when ares_cancel was called and has not completed when it returned"); else if (r.calls == 1 && r.status != ARES_ECANCELLED && r.t_end == w.now_us && !r.in_start) { r.status_at_cancel = r.status; } r.pending_at_cancel = false; }
    }
  }

  // ------------------------------------------------------------------ channel
  std::string write_tmp(const std::string &name, const std::vector<std::string> &lines) {
    std::string p = tmpdir + "/" + name; FILE *f = fopen(p.c_str(), "w"); if (f) { for (auto &l : lines) fprintf(f, "%s\n", l.c_str()); fclose(f); } return p;
  }
  bool init_channel() {
    if (ch) return true;
    ares_verif_tvnow = World::cb_tvnow; ares_verif_rand = World::cb_rand;
    w.nonblocking = opt.nonblock; w.tfo_supported = opt.tfo; w.sockstate_cb = opt.sockstate; w.answer_mixed_families = opt.mixed; w.cname_depth_mod = opt.cname_mod > 0 ? opt.cname_mod : 3; w.answer_with_soa = opt.asoa != 0;
    std::string rc = write_tmp("resolv.conf", resolv_lines), hp = write_tmp("hosts", hosts_lines);
    if (!alias_lines.empty()) { std::string ap = write_tmp("aliases", alias_lines); setenv("HOSTALIASES", ap.c_str(), 1); } else unsetenv("HOSTALIASES");
    struct ares_options o; memset(&o, 0, sizeof o); int mask = 0;
    o.resolvconf_path = (char *)rc.c_str(); mask |= ARES_OPT_RESOLVCONF; o.hosts_path = (char *)hp.c_str(); mask |= ARES_OPT_HOSTS_FILE;
    if (opt.flags_set) { o.flags = (int)opt.flags; mask |= ARES_OPT_FLAGS; }
    o.timeout = opt.timeout; mask |= ARES_OPT_TIMEOUTMS; o.tries = opt.tries; mask |= ARES_OPT_TRIES;
    if (opt.maxtimeout > 0) { o.maxtimeout = opt.maxtimeout; mask |= ARES_OPT_MAXTIMEOUTMS; }
    if (opt.ndots >= 0) { o.ndots = opt.ndots; mask |= ARES_OPT_NDOTS; }
    if (opt.rotate == 1) mask |= ARES_OPT_ROTATE; else mask |= ARES_OPT_NOROTATE;
    if (opt.udpmax > 0) { o.udp_max_queries = opt.udpmax; mask |= ARES_OPT_UDP_MAX_QUERIES; }
    if (opt.qcache >= 0) { o.qcache_max_ttl = (unsigned)opt.qcache; mask |= ARES_OPT_QUERY_CACHE; }
    std::string lk = opt.lookups.empty() ? "bf" : opt.lookups; o.lookups = (char *)lk.c_str(); mask |= ARES_OPT_LOOKUPS;
    std::vector<std::string> doms; std::vector<char *> domp;
    if (opt.domains_set) { std::istringstream ds(opt.domains); std::string d; while (std::getline(ds, d, ',')) if (!d.empty()) doms.push_back(d); for (auto &d2 : doms) domp.push_back((char *)d2.c_str()); o.domains = domp.data(); o.ndomains = (int)domp.size(); mask |= ARES_OPT_DOMAINS; }
    if (opt.sockstate) { o.sock_state_cb = cb_sockstate; o.sock_state_cb_data = nullptr; mask |= ARES_OPT_SOCK_STATE_CB; }
    if (opt.ednspsz > 0) { o.ednspsz = opt.ednspsz; mask |= ARES_OPT_EDNSPSZ; }
    if (opt.failover_chance >= 0) { o.server_failover_opts.retry_chance = (unsigned short)opt.failover_chance; o.server_failover_opts.retry_delay = (size_t)opt.failover_delay; mask |= ARES_OPT_SERVER_FAILOVER; }
    int rcI = ares_init_options(&ch, &o, mask);
    if (rcI != ARES_SUCCESS) { ch = nullptr; notes.push_back("init failed: " + std::string(ares_strerror(rcI))); return false; }
    w.chan = ch;
    struct ares_socket_functions_ex f; memset(&f, 0, sizeof f); f.version = 1; f.flags = opt.nonblock ? ARES_SOCKFUNC_FLAG_NONBLOCKING : 0;
    f.asocket = World::s_socket; f.aclose = World::s_close; f.asetsockopt = World::s_setsockopt; f.aconnect = World::s_connect; f.arecvfrom = World::s_recvfrom; f.asendto = World::s_sendto; f.agetsockname = opt.nogsn ? nullptr : World::s_getsockname;   // the member is optional in the public structure
    ares_set_socket_functions_ex(ch, &f, nullptr);
    ares_set_server_state_callback(ch, cb_server_state, this);
    if (opt.pendingwrite) ares_set_pending_write_cb(ch, cb_pending_write, this);
    apply_servers(server_specs);
    if (!sortlist.empty()) ares_set_sortlist(ch, sortlist.c_str());
    return true;
  }
  void apply_servers(const std::vector<std::string> &specs) {
    LibCall lc(*this);
    std::string csv; w.servers.resize(std::max(w.servers.size(), specs.size()));
    size_t n = 0;
    for (auto &s : specs) { Addr a; if (!Addr::parse(s, a)) continue; if (n >= w.servers.size()) w.servers.resize(n + 1); w.servers[n].addr = a; if (w.servers[n].source.b[0] == 0) { Addr src; src.family = a.family; if (a.family == AF_INET) { src.b[0] = 192; src.b[1] = 168; src.b[2] = 1; src.b[3] = (unsigned char)(10 + n); } else { src.b[0] = 0xfd; src.b[1] = 0x01; src.b[15] = (unsigned char)(10 + n); } w.servers[n].source = src; } if (!csv.empty()) csv += ","; csv += a.str(); n++; }
    { ServerSet ss; ss.ev = ++w.evseq; std::istringstream a(csv); std::string x; while (std::getline(a, x, ',')) if (std::find(ss.list.begin(), ss.list.end(), x) == ss.list.end()) ss.list.push_back(x); server_sets.push_back(ss); }
    if (ch) { int rc = ares_set_servers_ports_csv(ch, csv.c_str()); if (rc != ARES_SUCCESS) notes.push_back("set_servers failed"); char *got = ares_get_servers_csv(ch); notes.push_back("servers set to " + csv + " -> library reports " + (got ? got : "NULL"));
      // the configured set must be exactly what was given (order follows the failure sort, so compare as sets)
      std::set<std::string> want, have; { std::istringstream a(csv); std::string x; while (std::getline(a, x, ',')) want.insert(x); } if (got) { std::istringstream a(got); std::string x; while (std::getline(a, x, ',')) have.insert(x); }
      if (rc == ARES_SUCCESS && got && !(opt.flags & ARES_FLAG_PRIMARY) && want != have) violate("C09.server-list-not-replaced", "set " + csv + " but the channel reports " + (got ? got : "NULL"));
      ares_free_string(got); }
  }

  // ------------------------------------------------------------------ event loop
  size_t pending() const { size_t n = 0; for (auto &kv : reqs) if (kv.second.started && kv.second.accepted && kv.second.calls == 0) n++; return n; }

  // which descriptors the library asked to watch right now
  void watched(std::map<int, std::pair<bool, bool>> &out) {
    out.clear();
    if (opt.sockstate) { for (auto &s : w.socks) if (s.open && (s.want_read || s.want_write)) out[s.fd] = {s.want_read, s.want_write}; return; }
    fd_set rf, wf; FD_ZERO(&rf); FD_ZERO(&wf);
    int nfds = ares_fds(ch, &rf, &wf);
    for (int fd = 0; fd < nfds && fd < FD_SETSIZE; fd++) { bool r = FD_ISSET(fd, &rf), wr = FD_ISSET(fd, &wf); if (r || wr) out[fd] = {r, wr}; }
  }
  // one loop iteration; returns number of events handed to the library
  size_t step(bool allow_stale = false, size_t stale_pick = 0) {
    if (!ch || destroyed) return 0;
    LibCall lc(*this);
    steps++;
    if (pending_write_flag) { pending_write_flag = false; ares_process_pending_write(ch); }
    std::map<int, std::pair<bool, bool>> watch; watched(watch);
    std::vector<ares_fd_events_t> ev;
    for (auto &kv : watch) {
      VSock *s = w.sock(kv.first); if (!s || !s->open) continue;
      unsigned e = 0;
      if (kv.second.first && w.readable_now(*s)) e |= ARES_FD_EVENT_READ;
      if (kv.second.second) { if (s->tcp && s->connecting) { s->connecting = false; s->connected = true; } if (!s->tcp || s->connected) e |= ARES_FD_EVENT_WRITE; }
      if (e) { ares_fd_events_t x; x.fd = kv.first; x.events = e; ev.push_back(x); }
    }
    if (allow_stale) { std::vector<int> closed; for (auto &s : w.socks) if (!s.open) closed.push_back(s.fd); if (!closed.empty()) { ares_fd_events_t x; x.fd = closed[stale_pick % closed.size()]; x.events = ARES_FD_EVENT_READ | ARES_FD_EVENT_WRITE; ev.push_back(x); } }
    if (opt.process == "fd") {
      if (ev.empty()) ares_process_fd(ch, ARES_SOCKET_BAD, ARES_SOCKET_BAD);
      for (auto &x : ev) { VSock *s = w.sock(x.fd); if (s && !s->open && !allow_stale) continue; ares_process_fd(ch, (x.events & ARES_FD_EVENT_READ) ? x.fd : ARES_SOCKET_BAD, (x.events & ARES_FD_EVENT_WRITE) ? x.fd : ARES_SOCKET_BAD); if (destroyed) break; }
    } else if (opt.process == "legacy") {
      fd_set rf, wf; FD_ZERO(&rf); FD_ZERO(&wf); for (auto &x : ev) if (x.fd < FD_SETSIZE) { if (x.events & ARES_FD_EVENT_READ) FD_SET(x.fd, &rf); if (x.events & ARES_FD_EVENT_WRITE) FD_SET(x.fd, &wf); }
      ares_process(ch, &rf, &wf);
    } else ares_process_fds(ch, ev.empty() ? nullptr : ev.data(), ev.size(), ARES_PROCESS_FLAG_NONE);
    return ev.size();
  }
  bool anything_ready() {
    std::map<int, std::pair<bool, bool>> watch; watched(watch);
    for (auto &kv : watch) { VSock *s = w.sock(kv.first); if (!s || !s->open) continue; if (kv.second.first && w.readable_now(*s)) return true; if (kv.second.second && (!s->tcp || s->connected || s->connecting)) return true; }
    return pending_write_flag;
  }
  // ares_timeout with maxtv = NULL; false when the library has no deadline
  bool timeout_hint(int64_t &us) {
    struct timeval tv; struct timeval *r = ares_timeout(ch, nullptr, &tv);
    timeout_obs.push_back({w.now_us, r ? (long)r->tv_sec : 0, r ? (long)r->tv_usec : 0, r != nullptr});
    if (!r) return false; us = r->tv_sec > 4000000000000LL ? ((int64_t)1 << 62) : (int64_t)r->tv_sec * 1000000 + r->tv_usec; return true;
  }
  void check_timeout_api() {
    // non-negative, normalised, never beyond the caller's maximum
    static const long maxs[][2] = {{0, 0}, {0, 1}, {0, 250000}, {1, 0}, {3600, 999999}};
    for (auto &m : maxs) { struct timeval mx; mx.tv_sec = m[0]; mx.tv_usec = m[1]; struct timeval tv; struct timeval *r = ares_timeout(ch, &mx, &tv); if (!r) { violate("C07.timeout-null-with-max", ""); continue; }
      if (r->tv_sec < 0 || r->tv_usec < 0 || r->tv_usec >= 1000000) violate("C07.timeout-not-normalised", std::to_string(r->tv_sec) + "s " + std::to_string(r->tv_usec) + "us");
      if (r->tv_sec > mx.tv_sec || (r->tv_sec == mx.tv_sec && r->tv_usec > mx.tv_usec)) violate("C07.timeout-exceeds-max", ""); }
    struct timeval tv; struct timeval *r = ares_timeout(ch, nullptr, &tv);
    if (r && (r->tv_sec < 0 || r->tv_usec < 0 || r->tv_usec >= 1000000)) violate("C07.timeout-not-normalised", std::to_string(r->tv_sec) + "s " + std::to_string(r->tv_usec) + "us");
  }
  // activity = anything a timeout can cause: a transmission, a completion, a socket call
  // (closing an idle connection happens at any processing call and is not timeout-driven, so socket calls are not counted)
  size_t activity() const { size_t c = w.txs.size() + server_events.size(); for (auto &kv : reqs) c += (size_t)kv.second.calls; return c; }

  // C07 counterfactual: with hint h > 0 and nothing else runnable, advancing h-1us must cause nothing, advancing h must cause something
  void c07_check(int64_t h) {
    if (h <= 0 || c07_checks >= 6 || h > (int64_t)1 << 55) return;
    c07_checks++;
    int pfd[2]; if (pipe(pfd) != 0) return;
    fflush(nullptr);
    pid_t pid = fork();
    if (pid == 0) {
      close(pfd[0]); size_t before = activity(); w.now_us += h - 1; ares_process_fds(ch, nullptr, 0, ARES_PROCESS_FLAG_NONE);
      char b = activity() != before ? 'E' : 'N'; if (b == 'E' && getenv("VERIF_DEBUG")) { vf::msg("c07 child: h=%lld now=%lld before=%zu after=%zu txs=%zu calls=%zu last call=%s fd=%d\n", (long long)h, (long long)w.now_us, before, activity(), w.txs.size(), w.calls.size(), w.calls.empty() ? "" : w.calls.back().call.c_str(), w.calls.empty() ? -1 : w.calls.back().fd); } if (write(pfd[1], &b, 1) < 0) {} _exit(0);
    }
    close(pfd[1]); char b = '?'; if (pid > 0) { if (read(pfd[0], &b, 1) < 0) {} int st; waitpid(pid, &st, 0); } close(pfd[0]);
    if (b == 'E') violate("C07.hint-later-than-earliest-deadline", "a timeout fired " + std::to_string(1) + "us before the instant ares_timeout() pointed at (hint " + std::to_string(h) + "us)");
    size_t before = activity(); w.now_us += h; ares_process_fds(ch, nullptr, 0, ARES_PROCESS_FLAG_NONE);
    if (activity() == before) { int64_t h2 = 0; if (timeout_hint(h2) && h2 == 0) violate("C07.hint-not-live", "processing at the hinted instant did nothing and the next hint is 0"); }
    else w.now_us += 0;
  }

  void drain() {
    if (!ch || destroyed) return;
    size_t budget = 400 + 40 * reqs.size() * std::max<size_t>(1, w.servers.size()) * (size_t)std::max(1, opt.tries);
    if (budget > 20000) budget = 20000;
    while (pending() > 0 && drain_steps < budget + 2 * w.stream_bytes + 4 * w.short_writes + 4 * w.blocked_writes) {   // one-byte reads / short writes legitimately need a step per byte
      drain_steps++;
      if (anything_ready()) { size_t c0 = w.calls.size(), a0 = activity(); step(); if (w.calls.size() != c0 || activity() != a0) continue; idle_spins++; }   // an event the library does nothing with: a real loop spins until the clock reaches the next deadline
      int64_t h = 0; bool has = timeout_hint(h); int64_t nd = w.next_delivery();
      if (!has && nd < 0) { stuck = true; break; }
      if (opt.c07) check_timeout_api();
      if (has && (nd < 0 || w.now_us + h <= nd)) {
        size_t live = 0; for (auto &kv : reqs) if (kv.second.started && kv.second.calls == 0) live++;
        if (opt.c07 && h > 0 && c07_checks < 6 && h < ((int64_t)1 << 55)) { if (live >= 2) c07_multi++; c07_check(h); continue; }
        if (h > (int64_t)1 << 55 || w.now_us > (int64_t)1 << 60) { astronomic = true; break; }   // deadline centuries away (unbounded doubling without maxtimeout): destroy completes the rest
        w.now_us += h; step();
      } else { w.now_us = nd; step(); }
    }
    if (pending() > 0 && !stuck && !astronomic) budget_exhausted = true;
  }

  void destroy() {
    if (!ch || destroyed) return;
    for (auto &kv : reqs) if (kv.second.started && kv.second.accepted && kv.second.calls == 0) kv.second.pending_at_destroy = true;
    LibCall lc(*this);
    in_destroy = true; ares_destroy(ch); in_destroy = false; destroyed = true; ch = nullptr; w.chan = nullptr;
  }

  ~Sim() { for (auto a : cbargs) delete a; }
};

}  // namespace sim
