// Oracles for C02 (totality / memory safety), C03 (round trips), C04 (differential vs refdns).
// Each returns true when the property held for this input; otherwise fills sig (stable clause id) and detail.
#pragma once
#include "wire_common.hpp"

namespace wire {

struct Outcome { std::string sig, detail; bool nontrivial = false; };

inline void count(const std::string &k) { vf::stats().count(k); }

struct RecGuard { ares_dns_record_t *r = nullptr; ~RecGuard() { if (r) ares_dns_record_destroy(r); } };
struct BufGuard { unsigned char *p = nullptr; ~BufGuard() { if (p) ares_free_string(p); } };

// ------------------------------------------------------------------ C04
inline bool check_c04(const Bytes &w, unsigned flags, Outcome &o) {
  ref::Msg m; ref::Verdict v = ref::decode((const unsigned char *)w.data(), w.size(), m);
  RecGuard g; ares_status_t st = w.empty() ? ARES_EFORMERR : ares_dns_parse((const unsigned char *)w.data(), w.size(), flags, &g.r);
  bool accepted = st == ARES_SUCCESS && g.r != nullptr;
  size_t nrr = m.sec[0].size() + m.sec[1].size() + m.sec[2].size();
  o.nontrivial = v.lenient_ok && nrr >= 1;
  count(accepted ? "c04.parser_accepts" : "c04.parser_rejects");
  count(v.strict_ok ? "c04.ref_strict" : (v.lenient_ok ? "c04.ref_lenient_only" : "c04.ref_rejects"));
  if (v.any_pointer) count("c04.has_pointer");
  if (!v.strict_ok) count("c04.why_not_strict." + v.reason);
  if (!accepted) count(std::string("c04.parser_status.") + ares_strerror((int)st));
  if (accepted) {
    if (!v.lenient_ok) {
      count("c04.accepted_but_ref_cannot_decode");
      if (flags == 0) {
        // with raw-flags the parser legitimately skips RDATA it would otherwise have to decode
        o.sig = v.forbidden ? "C04.accepted-forbidden-name" : "C04.accepted-undecodable";
        o.detail = "parser accepts, reference cannot extract: " + v.reason; return false;
      }
      return true;
    }
    std::string a = cares_dump(g.r), b = ref_dump(m, flags);
    if (a != b) { o.sig = "C04.field-mismatch." + diff_clause(a, b); o.detail = "A=c-ares B=reference " + first_diff(a, b); return false; }
    count("c04.dumps_compared");
    for (int s = 0; s < 3; s++) for (auto &rr : m.sec[s]) count("c04.type." + std::to_string(ref::known_type(rr.type) ? rr.type : 0));
  } else {
    if (v.strict_ok && st != ARES_ENOMEM) { o.sig = "C04.strict-rejected"; o.detail = std::string("reference finds the message well-formed within the supported subset, parser returns ") + ares_strerror((int)st); return false; }
  }
  return true;
}

// names: text -> labels -> text round trip through the public API (RDATA name of a PTR record is not hostname-validated)
// The name is written as RDATA of the last record of a small message.  `decoy`, when given, is written first, so that it is in the writer's
// compression table: a name whose *text* ends in the decoy's text after an escaped dot ("a\.example.com" after "example.com") must still be
// written as its own labels.
// Presentation text in the two styles RFC 1035 section 5.1 allows: every special octet as \DDD (style 0), or "\X" for printable special
// characters such as "\." and "\\" (style 1, which is also what the library itself prints).
inline std::string name_text(const ref::Name &n, int style) {
  if (style == 0) return ref::escape_name(n);
  std::string o;
  for (size_t i = 0; i < n.labels.size(); i++) { if (i) o += '.';
    for (unsigned char c : n.labels[i]) { if (c == '.' || c == '\\' || c == '"' || c == ';' || c == '(' || c == ')' || c == '@' || c == '$') { o += '\\'; o += (char)c; } else if (c > 0x20 && c < 0x7f) o += (char)c; else { char b[8]; snprintf(b, sizeof b, "\\%03u", (unsigned)c); o += b; } } }
  return o;
}
inline bool check_name_roundtrip_in(const ref::Name &n, const ref::Name *decoy, int style, Outcome &o) {
  RecGuard g;
  if (ares_dns_record_create(&g.r, 1, 0, ARES_OPCODE_QUERY, ARES_RCODE_NOERROR) != ARES_SUCCESS) return true;
  if (ares_dns_record_query_add(g.r, "q.test", ARES_REC_TYPE_PTR, ARES_CLASS_IN) != ARES_SUCCESS) return true;
  ares_dns_rr_t *rr = nullptr; size_t idx = 0;
  if (decoy) {
    if (ares_dns_record_rr_add(&rr, g.r, ARES_SECTION_ANSWER, "q.test", ARES_REC_TYPE_PTR, ARES_CLASS_IN, 1) != ARES_SUCCESS) return true;
    if (ares_dns_rr_set_str(rr, ARES_RR_PTR_DNAME, name_text(*decoy, style).c_str()) != ARES_SUCCESS) return true;
    idx = 1;
  }
  if (ares_dns_record_rr_add(&rr, g.r, ARES_SECTION_ANSWER, "q.test", ARES_REC_TYPE_PTR, ARES_CLASS_IN, 1) != ARES_SUCCESS) return true;
  std::string text = name_text(n, style);
  if (ares_dns_rr_set_str(rr, ARES_RR_PTR_DNAME, text.c_str()) != ARES_SUCCESS) return true;
  BufGuard b; size_t len = 0;
  ares_status_t st = ares_dns_write(g.r, &b.p, &len);
  size_t wire_len = 1; for (auto &l : n.labels) wire_len += 1 + l.size();
  if (st != ARES_SUCCESS) {
    count("c04.name_write_rejected");
    // a name of at most 255 octets on the wire is a valid name however long its escaped text is (each octet may take four characters)
    if (wire_len <= 255 && st != ARES_ENOMEM) { o.sig = decoy ? "C04.name-write-rejected-after-similar-name" : "C04.name-write-rejected"; o.detail = std::string("valid name rejected by writer (") + ares_strerror((int)st) + "): " + text.substr(0, 300) + (decoy ? " written after " + name_text(*decoy, style).substr(0, 200) : ""); return false; }
    return true;
  }
  if (text.size() > 255) count("c04.name_roundtrips_text_over_255");
  ref::Msg m; ref::Verdict v = ref::decode(b.p, len, m);
  if (!v.lenient_ok || m.sec[0].size() != idx + 1 || m.sec[0][idx].fields.size() != 1) { o.sig = "C04.name-write-unparseable"; o.detail = v.reason; return false; }
  if (m.sec[0][idx].fields[0].name != n) { o.sig = "C04.name-escape-roundtrip"; o.detail = "wrote " + text + " got " + name_hex(m.sec[0][idx].fields[0].name) + " want " + name_hex(n); return false; }
  // and back through the parser's own escaping
  RecGuard g2; if (ares_dns_parse(b.p, len, 0, &g2.r) != ARES_SUCCESS) { o.sig = "C04.name-reparse"; return false; }
  const ares_dns_rr_t *r2 = ares_dns_record_rr_get_const(g2.r, ARES_SECTION_ANSWER, idx);
  std::string back = text_name_hex(ares_dns_rr_get_str(r2, ARES_RR_PTR_DNAME));
  if (back != name_hex(n)) { o.sig = "C04.name-escape-roundtrip"; o.detail = "parser text does not decode to the label bytes: " + back + " want " + name_hex(n); return false; }
  count(decoy ? "c04.name_roundtrips_after_decoy" : "c04.name_roundtrips");
  return true;
}
inline bool check_name_roundtrip(const ref::Name &n, Outcome &o) {
  if (!check_name_roundtrip_in(n, nullptr, 0, o) || !check_name_roundtrip_in(n, nullptr, 1, o)) return false;
  // decoy: what follows the first dot *inside* a label, plus the remaining labels
  for (size_t i = 0; i < n.labels.size(); i++) { size_t d = n.labels[i].find('.'); if (d == std::string::npos) continue;
    ref::Name dec; std::string rest = n.labels[i].substr(d + 1); if (!rest.empty()) dec.labels.push_back(rest); for (size_t j = i + 1; j < n.labels.size(); j++) dec.labels.push_back(n.labels[j]);
    if (dec.labels.empty()) break;
    return check_name_roundtrip_in(n, &dec, 0, o) && check_name_roundtrip_in(n, &dec, 1, o); }
  return true;
}

// ------------------------------------------------------------------ C03
// Given a record, check: write ok => <= 65535, parses (c-ares and reference), equal field by field, byte-idempotent.
inline bool check_write_roundtrip(const ares_dns_record_t *rec, const std::string &origin, Outcome &o, const std::string *expect_dump = nullptr) {
  BufGuard b; size_t len = 0;
  ares_status_t st = ares_dns_write(rec, &b.p, &len);
  if (st != ARES_SUCCESS) { count("c03.write_failed"); if (b.p != nullptr) { o.sig = "C03.write-failed-with-buffer"; return false; } return true; }
  count("c03.write_ok");
  std::string d0 = cares_dump(rec);
  if (expect_dump && d0 != *expect_dump) { o.sig = "C03.setter-getter-mismatch." + diff_clause(d0, *expect_dump); o.detail = "A=getters B=what was set " + first_diff(d0, *expect_dump); return false; }
  if (len > 65535) { o.sig = "C03.longer-than-65535"; o.detail = origin + ": ares_dns_write returned " + std::to_string(len) + " bytes"; return false; }
  if (len > 512) count("c03.over_512"); if (len > 16384) count("c03.over_16k");
  ref::Msg m; ref::Verdict v = ref::decode(b.p, len, m);
  if (v.any_pointer) count("c03.has_pointer");
  o.nontrivial = v.any_pointer || len > 512;
  RecGuard g2; ares_status_t ps = ares_dns_parse(b.p, len, 0, &g2.r);
  if (ps != ARES_SUCCESS) { if (ps == ARES_ENOMEM) return true; o.sig = "C03.written-bytes-do-not-parse"; o.detail = origin + ": " + ares_strerror((int)ps) + (v.lenient_ok ? "" : " (reference: " + v.reason + ")"); return false; }
  if (!v.lenient_ok) { o.sig = "C03.written-bytes-not-decodable-by-reference"; o.detail = origin + ": " + v.reason; return false; }
  std::string d1 = cares_dump(g2.r);
  if (d0 != d1) { o.sig = "C03.reparse-differs." + diff_clause(d0, d1); o.detail = origin + ": A=original B=re-parsed " + first_diff(d0, d1); return false; }
  std::string dr = ref_dump(m, 0);
  if (d0 != dr) { o.sig = "C03.reference-differs." + diff_clause(d0, dr); o.detail = origin + ": A=original B=reference decode of written bytes " + first_diff(d0, dr); return false; }
  BufGuard b2; size_t len2 = 0;
  ares_status_t st2 = ares_dns_write(g2.r, &b2.p, &len2);
  if (st2 != ARES_SUCCESS) { if (st2 == ARES_ENOMEM) return true; o.sig = "C03.rewrite-failed"; o.detail = origin + ": " + ares_strerror((int)st2); return false; }
  if (len2 != len || memcmp(b.p, b2.p, len) != 0) { o.sig = "C03.not-byte-idempotent"; o.detail = origin; return false; }
  // duplicate must serialise identically
  ares_dns_record_t *dup = ares_dns_record_duplicate(rec);
  if (dup) { RecGuard gd; gd.r = dup; std::string dd = cares_dump(dup); if (dd != d0) { o.sig = "C03.duplicate-differs." + diff_clause(d0, dd); o.detail = first_diff(d0, dd); return false; } }
  return true;
}

inline bool check_c03_msg(const Bytes &w, Outcome &o) {
  RecGuard g; if (w.empty() || ares_dns_parse((const unsigned char *)w.data(), w.size(), 0, &g.r) != ARES_SUCCESS) { count("c03.input_rejected"); return true; }
  return check_write_roundtrip(g.r, "parsed message", o);
}

// Build a record through the public setters only.  Returns false if some setter refused (case discarded).
inline bool build_record(const ref::Msg &m, ares_dns_record_t **out, std::string &why) {
  unsigned raw = m.rcode4; for (int s = 0; s < 3; s++) for (auto &rr : m.sec[s]) if (rr.type == ref::T_OPT) raw |= ((rr.ttl >> 24) & 0xff) << 4;
  unsigned short fl = (unsigned short)((m.qr ? ARES_FLAG_QR : 0) | (m.aa ? ARES_FLAG_AA : 0) | (m.tc ? ARES_FLAG_TC : 0) | (m.rd ? ARES_FLAG_RD : 0) | (m.ra ? ARES_FLAG_RA : 0) | (m.ad ? ARES_FLAG_AD : 0) | (m.cd ? ARES_FLAG_CD : 0));
  ares_dns_record_t *rec = nullptr;
  if (ares_dns_record_create(&rec, m.id, fl, (ares_dns_opcode_t)m.opcode, (ares_dns_rcode_t)raw) != ARES_SUCCESS) { why = "create"; return false; }
#define TRY(x, what) do { if ((x) != ARES_SUCCESS) { why = what; ares_dns_record_destroy(rec); return false; } } while (0)
  for (auto &q : m.qd) TRY(ares_dns_record_query_add(rec, ref::escape_name(q.name).c_str(), (ares_dns_rec_type_t)q.type, (ares_dns_class_t)q.klass), "query_add");
  for (int s = 0; s < 3; s++) for (auto &r : m.sec[s]) {
    ares_dns_rr_t *rr = nullptr; ares_dns_rec_type_t type = r.decoded ? (ares_dns_rec_type_t)r.type : ARES_REC_TYPE_RAW_RR;
    bool opt = r.type == ref::T_OPT && r.decoded;
    TRY(ares_dns_record_rr_add(&rr, rec, (ares_dns_section_t)(s + 1), ref::escape_name(r.owner).c_str(), type, opt ? ARES_CLASS_IN : (ares_dns_class_t)r.klass, opt ? 0 : r.ttl), "rr_add");
    if (!r.decoded) { TRY(ares_dns_rr_set_u16(rr, ARES_RR_RAW_RR_TYPE, r.type), "raw type"); if (!r.rdata.empty()) TRY(ares_dns_rr_set_bin(rr, ARES_RR_RAW_RR_DATA, (const unsigned char *)r.rdata.data(), r.rdata.size()), "raw data"); continue; }
    size_t nk = 0; const ares_dns_rr_key_t *keys = ares_dns_rr_get_keys(type, &nk);
    if (nk != r.fields.size()) { why = "key count"; ares_dns_record_destroy(rec); return false; }
    for (size_t k = 0; k < nk; k++) {
      const ref::Field &f = r.fields[k]; ares_dns_rr_key_t key = keys[k];
      switch (f.kind) {
        case ref::F_U8: TRY(ares_dns_rr_set_u8(rr, key, (unsigned char)f.num), "set_u8"); break;
        case ref::F_U16: TRY(ares_dns_rr_set_u16(rr, key, (unsigned short)f.num), "set_u16"); break;
        case ref::F_U32: TRY(ares_dns_rr_set_u32(rr, key, f.num), "set_u32"); break;
        case ref::F_NAME: TRY(ares_dns_rr_set_str(rr, key, ref::escape_name(f.name).c_str()), "set_name"); break;
        case ref::F_STR: TRY(ares_dns_rr_set_str(rr, key, f.bin.c_str()), "set_str"); break;
        case ref::F_BIN: TRY(ares_dns_rr_set_bin(rr, key, (const unsigned char *)f.bin.data(), f.bin.size()), "set_bin"); break;
        case ref::F_ADDR4: { struct in_addr a; memcpy(&a, f.bin.data(), 4); TRY(ares_dns_rr_set_addr(rr, key, &a), "set_addr"); break; }
        case ref::F_ADDR6: { struct ares_in6_addr a; memcpy(&a, f.bin.data(), 16); TRY(ares_dns_rr_set_addr6(rr, key, &a), "set_addr6"); break; }
        case ref::F_ABIN: for (auto &sv : f.abin) TRY(ares_dns_rr_add_abin(rr, key, (const unsigned char *)sv.data(), sv.size()), "add_abin"); break;
        case ref::F_OPTS: for (auto &p : f.opts) TRY(ares_dns_rr_set_opt(rr, key, p.first, (const unsigned char *)p.second.data(), p.second.size()), "set_opt"); break;
      }
    }
  }
#undef TRY
  *out = rec; return true;
}

inline bool check_c03_build(const ref::Msg &m, Outcome &o) {
  RecGuard g; std::string why;
  if (!build_record(m, &g.r, why)) { count("c03.build_refused." + why); vf::stats().discarded++; return true; }
  count("c03.built");
  std::string expect = ref_dump(m, 0);
  return check_write_roundtrip(g.r, "record built through public setters", o, &expect);
}

// (iii) the frames the library hands to sockets: ares_dns_write_buf_tcp() into a buffer that already holds data
inline bool check_c03_tcp(const std::vector<const ares_dns_record_t *> &recs, size_t junk_prefix, size_t consumed, Outcome &o) {
  ares_buf_t *buf = ares_buf_create(); if (!buf) return true;
  bool ok = true;
  Bytes junk(junk_prefix, 'J');
  if (junk_prefix) ares_buf_append(buf, (const unsigned char *)junk.data(), junk.size());
  if (consumed && consumed <= junk_prefix) ares_buf_consume(buf, consumed);
  size_t base = ares_buf_len(buf);
  std::vector<std::string> dumps; size_t written = 0;
  for (auto r : recs) { size_t before = ares_buf_len(buf); ares_status_t st = ares_dns_write_buf_tcp(r, buf); if (st == ARES_SUCCESS) { dumps.push_back(cares_dump(r)); written++; } else { count("c03.tcp_write_failed"); if (ares_buf_len(buf) != before) { o.sig = "C03.tcp-failed-write-left-bytes"; ok = false; break; } } }
  if (ok) {
    size_t total = 0; const unsigned char *p = ares_buf_peek(buf, &total);
    size_t pos = base; size_t i = 0;
    if (base || junk_prefix) o.nontrivial = true;
    for (; ok && i < written; i++) {
      if (pos + 2 > total) { o.sig = "C03.tcp-frame-missing"; ok = false; break; }
      size_t flen = ((size_t)p[pos] << 8) | p[pos + 1];
      if (pos + 2 + flen > total) { o.sig = "C03.tcp-frame-length-exceeds-buffer"; ok = false; break; }
      const unsigned char *body = p + pos + 2;
      ref::Msg m; ref::Verdict v = ref::decode(body, flen, m);
      RecGuard g; ares_status_t ps = ares_dns_parse(body, flen, 0, &g.r);
      if (!v.lenient_ok || ps != ARES_SUCCESS) { o.sig = "C03.tcp-frame-body-unparseable"; o.detail = "frame " + std::to_string(i) + " at buffer offset " + std::to_string(pos) + ": reference: " + (v.lenient_ok ? "ok" : v.reason) + ", c-ares: " + ares_strerror((int)ps); ok = false; break; }
      std::string d = cares_dump(g.r);
      if (d != dumps[i]) { o.sig = "C03.tcp-frame-differs." + diff_clause(dumps[i], d); o.detail = first_diff(dumps[i], d); ok = false; break; }
      if (m.end_off != flen) { o.sig = "C03.tcp-frame-length-mismatch"; ok = false; break; }
      if (v.any_pointer) { count("c03.tcp_frame_with_pointer"); o.nontrivial = true; }
      pos += 2 + flen;
    }
    if (ok && pos != total) { o.sig = "C03.tcp-trailing-bytes"; ok = false; }
    if (ok && written) count("c03.tcp_frames_checked");
  }
  ares_buf_destroy(buf);
  return ok;
}

// (iv) legacy query builders
inline bool check_c03_query(const ref::Name &n, int dnsclass, int type, unsigned short id, int rd, int udp_size, bool mk, Outcome &o) {
  std::string text = ref::escape_name(n);
  unsigned char *buf = nullptr; int buflen = 0;
  int st = mk ? ares_mkquery(text.c_str(), dnsclass, type, id, rd, &buf, &buflen) : ares_create_query(text.c_str(), dnsclass, type, id, rd, &buf, &buflen, udp_size);
  if (st != ARES_SUCCESS) { count("c03.query_refused"); if (buf) { o.sig = "C03.query-failed-with-buffer"; return false; } return true; }
  BufGuard g; g.p = buf;
  ref::Msg m; ref::Verdict v = ref::decode(buf, (size_t)buflen, m);
  if (!v.lenient_ok || m.qd.size() != 1) { o.sig = "C03.query-not-decodable"; o.detail = v.reason; return false; }
  bool edns = !mk && udp_size > 0;
  std::string bad;
  if (m.id != id) bad = "id"; else if (m.rd != (rd != 0)) bad = "rd"; else if (m.qr || m.opcode || m.aa || m.tc || m.ra || m.rcode4) bad = "flags";
  else if (m.qd[0].type != type) bad = "type"; else if (m.qd[0].klass != dnsclass) bad = "class"; else if (m.qd[0].name != n) bad = "name";
  else if (!m.sec[0].empty() || !m.sec[1].empty()) bad = "sections";
  else if (edns && (m.sec[2].size() != 1 || m.sec[2][0].type != ref::T_OPT || m.sec[2][0].klass != (udp_size & 0xffff))) bad = "opt";
  else if (!edns && !m.sec[2].empty()) bad = "unexpected-additional";
  else if (m.end_off != (size_t)buflen) bad = "trailing";
  if (!bad.empty()) { o.sig = "C03.query-builder-" + bad; o.detail = text; return false; }
  count("c03.queries_checked"); o.nontrivial = true;
  return true;
}

// ------------------------------------------------------------------ C02
struct C02Params { unsigned flags = 0; unsigned entry = 0; size_t off = 0; int cap = 0; };

inline bool c02_fail(Outcome &o, const std::string &clause, const std::string &d = "") { o.sig = "C02." + clause; o.detail = d; return false; }

inline bool check_c02(const Bytes &w, const C02Params &pr, Outcome &o) {
  const unsigned char *p = (const unsigned char *)w.data(); int alen = (int)w.size();
  // 0: the record parser with every getter, write and duplicate on success
  {
    ares_dns_record_t *rec = nullptr; ares_status_t st = ares_dns_parse(p, w.size(), pr.flags, &rec);
    if (st == ARES_SUCCESS) {
      if (rec == nullptr) return c02_fail(o, "parse-success-without-result");
      RecGuard g; g.r = rec;
      std::string d = cares_dump(rec); (void)d;
      unsigned char *b = nullptr; size_t bl = 0; ares_status_t ws = ares_dns_write(rec, &b, &bl);
      if (ws == ARES_SUCCESS && b == nullptr) return c02_fail(o, "write-success-without-buffer");
      if (ws != ARES_SUCCESS && b != nullptr) return c02_fail(o, "write-failure-with-buffer");
      ares_free_string(b);
      ares_dns_record_t *dup = ares_dns_record_duplicate(rec); if (dup) ares_dns_record_destroy(dup);
      // pointer discipline: anything the parser accepted must have only strictly-backwards pointers
      if (pr.flags == 0) { ref::Msg m; ref::Verdict v = ref::decode(p, w.size(), m); if (v.forbidden) return c02_fail(o, "accepted-forward-or-reserved-pointer", v.reason); if (v.any_pointer) { count("c02.accepted_with_pointer"); o.nontrivial = true; } }
      count("c02.parse_accept");
      if (ares_dns_record_rr_cnt(rec, ARES_SECTION_ANSWER) + ares_dns_record_rr_cnt(rec, ARES_SECTION_AUTHORITY) + ares_dns_record_rr_cnt(rec, ARES_SECTION_ADDITIONAL) > 0) o.nontrivial = true;
    } else { if (rec != nullptr) return c02_fail(o, "parse-failure-with-result"); count("c02.parse_reject"); }
  }
  // legacy reply parsers
  {
    struct hostent *h = nullptr; struct ares_addrttl at[8]; int nat = pr.cap % 9; int want = nat;
    int st = ares_parse_a_reply(p, alen, &h, nat ? at : nullptr, &nat);
    if (st == ARES_SUCCESS) { if (!h) return c02_fail(o, "a-success-without-hostent"); if (nat > want) return c02_fail(o, "a-wrote-past-capacity"); count("c02.legacy_a_ok"); o.nontrivial = true; } else if (h) return c02_fail(o, "a-failure-with-result");
    if (h) { for (char **a = h->h_addr_list; a && *a; a++) { volatile unsigned char t = (unsigned char)(*a)[h->h_length - 1]; (void)t; } for (char **a = h->h_aliases; a && *a; a++) (void)strlen(*a); (void)strlen(h->h_name); ares_free_hostent(h); }
  }
  {
    struct hostent *h = nullptr; struct ares_addr6ttl at[8]; int nat = pr.cap % 9; int want = nat;
    int st = ares_parse_aaaa_reply(p, alen, &h, nat ? at : nullptr, &nat);
    if (st == ARES_SUCCESS) { if (!h) return c02_fail(o, "aaaa-success-without-hostent"); if (nat > want) return c02_fail(o, "aaaa-wrote-past-capacity"); count("c02.legacy_aaaa_ok"); o.nontrivial = true; } else if (h) return c02_fail(o, "aaaa-failure-with-result");
    if (h) ares_free_hostent(h);
  }
  { struct hostent *h = nullptr; int st = ares_parse_ns_reply(p, alen, &h); if (st == ARES_SUCCESS && !h) return c02_fail(o, "ns-success-without-hostent"); if (st != ARES_SUCCESS && h) return c02_fail(o, "ns-failure-with-result"); if (h) { for (char **a = h->h_aliases; a && *a; a++) (void)strlen(*a); ares_free_hostent(h); count("c02.legacy_ns_ok"); } }
  { struct hostent *h = nullptr; unsigned char addr[16] = {10, 0, 0, 1}; int st = ares_parse_ptr_reply(p, alen, addr, (pr.cap & 1) ? 16 : 4, (pr.cap & 1) ? AF_INET6 : AF_INET, &h); if (st == ARES_SUCCESS && !h) return c02_fail(o, "ptr-success-without-hostent"); if (st != ARES_SUCCESS && h) return c02_fail(o, "ptr-failure-with-result"); if (h) { for (char **a = h->h_aliases; a && *a; a++) (void)strlen(*a); (void)strlen(h->h_name); ares_free_hostent(h); count("c02.legacy_ptr_ok"); } }
#define LEGACY(fn, T, walk, tag) { T *out = nullptr; int st = fn(p, alen, &out); if (st != ARES_SUCCESS && out) return c02_fail(o, tag "-failure-with-result"); if (st == ARES_SUCCESS && out) { count("c02.legacy_" tag "_ok"); o.nontrivial = true; } for (T *x = out; x; x = x->next) { walk; } if (out) ares_free_data(out); }
  LEGACY(ares_parse_caa_reply, struct ares_caa_reply, { volatile size_t l = x->plength + x->length; (void)l; if (x->property && x->plength) { volatile unsigned char t = x->property[x->plength - 1]; (void)t; } if (x->value && x->length) { volatile unsigned char t = x->value[x->length - 1]; (void)t; } }, "caa")
  LEGACY(ares_parse_srv_reply, struct ares_srv_reply, { if (x->host) (void)strlen(x->host); }, "srv")
  LEGACY(ares_parse_mx_reply, struct ares_mx_reply, { if (x->host) (void)strlen(x->host); }, "mx")
  LEGACY(ares_parse_txt_reply, struct ares_txt_reply, { if (x->txt && x->length) { volatile unsigned char t = x->txt[x->length - 1]; (void)t; } }, "txt")
  LEGACY(ares_parse_txt_reply_ext, struct ares_txt_ext, { if (x->txt && x->length) { volatile unsigned char t = x->txt[x->length - 1]; (void)t; } }, "txtext")
  LEGACY(ares_parse_naptr_reply, struct ares_naptr_reply, { if (x->flags) (void)strlen((char *)x->flags); if (x->service) (void)strlen((char *)x->service); if (x->regexp) (void)strlen((char *)x->regexp); if (x->replacement) (void)strlen(x->replacement); }, "naptr")
  LEGACY(ares_parse_uri_reply, struct ares_uri_reply, { if (x->uri) (void)strlen(x->uri); }, "uri")
#undef LEGACY
  { struct ares_soa_reply *out = nullptr; int st = ares_parse_soa_reply(p, alen, &out); if (st != ARES_SUCCESS && out) return c02_fail(o, "soa-failure-with-result"); if (st == ARES_SUCCESS) { if (!out) return c02_fail(o, "soa-success-without-result"); (void)strlen(out->nsname); (void)strlen(out->hostmaster); count("c02.legacy_soa_ok"); } if (out) ares_free_data(out); }
  // name / string expansion at an offset inside the buffer
  if (alen > 0) {
    size_t off = pr.off % (size_t)alen;
    { char *s = nullptr; long enclen = -1; int st = ares_expand_name(p + off, p, alen, &s, &enclen);
      if (st == ARES_SUCCESS) { if (!s) return c02_fail(o, "expand-name-success-without-string"); if (enclen <= 0 || (size_t)enclen > (size_t)alen - off) return c02_fail(o, "expand-name-enclen-out-of-range", std::to_string(enclen)); (void)strlen(s); ares_free_string(s); count("c02.expand_name_ok"); }
      else if (s) return c02_fail(o, "expand-name-failure-with-result"); }
    { unsigned char *s = nullptr; long enclen = -1; int st = ares_expand_string(p + off, p, alen, &s, &enclen);
      if (st == ARES_SUCCESS) { if (!s) return c02_fail(o, "expand-string-success-without-string"); if (enclen <= 0 || (size_t)enclen > (size_t)alen - off) return c02_fail(o, "expand-string-enclen-out-of-range"); if (strlen((char *)s) > (size_t)enclen) return c02_fail(o, "expand-string-longer-than-encoded"); ares_free_string(s); count("c02.expand_string_ok"); }
      else if (s) return c02_fail(o, "expand-string-failure-with-result"); }
    // the string decoder documents a NULL destination as "skip the value": same status and length, nothing allocated for the caller
    { long enclen = -1; long live = vf::ledger().live; int st = ares_expand_string(p + off, p, alen, nullptr, &enclen);
      if (st == ARES_SUCCESS && (enclen <= 0 || (size_t)enclen > (size_t)alen - off)) return c02_fail(o, "expand-string-enclen-out-of-range", "NULL destination");
      if (vf::ledger().live != live) return c02_fail(o, "expand-string-null-destination-leaks", std::to_string(vf::ledger().live - live) + " blocks still allocated after ares_expand_string(..., NULL, ...) returned " + std::to_string(st));
      if (st == ARES_SUCCESS) count("c02.expand_string_skip_ok"); }
  }
  return true;
}

// ---- C14, wire family: every decoding / re-encoding entry point of check_c02 under each single refused allocation
inline bool check_c14_wire(const Bytes &w, const C02Params &pr, bool all, const std::vector<uint64_t> &picks, Outcome &o) {
  vf::Ledger &L = vf::ledger(); long live0 = L.live;
  L.arm(0); Outcome o0; bool ok0 = check_c02(w, pr, o0); uint64_t N = L.counter; L.disarm();
  if (!ok0) { o = o0; o.detail = "(no allocation refused) " + o.detail; return false; }
  if (L.live != live0) { o.sig = "C14.leak"; o.detail = "(no allocation refused) " + std::to_string(L.live - live0) + " blocks still allocated"; return false; }
  count("c14.wire_messages"); vf::stats().count("c14.wire_baseline_allocations", N);
  if (N == 0) return true;
  // every index when N <= 600 (count("c14.wire_messages_enumerated_exhaustively")), else the first 200 and an even spread of 400 over the rest
  std::vector<uint64_t> ns; if (all) { if (N <= 600) { for (uint64_t n = 1; n <= N; n++) ns.push_back(n); count("c14.wire_messages_enumerated_exhaustively"); } else { for (uint64_t n = 1; n <= 200; n++) ns.push_back(n); for (uint64_t i = 0; i < 400; i++) ns.push_back(201 + i * (N - 200) / 400); } } else for (uint64_t k : picks) ns.push_back(1 + k % N);
  for (uint64_t n : ns) {
    vf::stats().arm_watchdog();
    L.arm(n); Outcome o1; bool ok = check_c02(w, pr, o1); bool fired = L.fired; L.disarm();
    count("c14.wire_runs_with_one_refused_allocation"); if (fired) count("c14.wire_faults_fired");
    if (!ok) { o = o1; o.sig = "C14.wire." + o1.sig; o.detail = "refusing allocation #" + std::to_string(n) + " of " + std::to_string(N) + ": " + o1.detail; return false; }
    if (L.live != live0) { o.sig = "C14.leak"; o.detail = "refusing allocation #" + std::to_string(n) + " of " + std::to_string(N) + ": " + std::to_string(L.live - live0) + " blocks still allocated after all decoders returned"; return false; }
  }
  if (N >= 5) o.nontrivial = true;
  return true;
}

}  // namespace wire
