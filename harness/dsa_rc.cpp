// C19: internal containers vs. trivial reference models, step by step.
// Case text: "container <kind>\nseed N\n<op> a b c\n..."; closed under line deletion (indices are
// taken modulo the current size, ops impossible in the current state check the error return).
#include "cares_internal.hpp"
#include "rc_main.hpp"
#include "ledger.hpp"
#include <algorithm>
#include <list>
#include <map>

using namespace vf;

namespace {

uint64_t g_rng;
void rng_seed(uint64_t s) { g_rng = s * 0x9E3779B97F4A7C15ULL + 0x1234567; }
void verif_rand(unsigned char *buf, size_t len) {
  for (size_t i = 0; i < len; i++) { g_rng ^= g_rng << 13; g_rng ^= g_rng >> 7; g_rng ^= g_rng << 17; buf[i] = (unsigned char)(g_rng >> 24); }
}

struct Fail { std::string sig; };
#define CHECK(cond, clause) do { if (!(cond)) throw Fail{std::string("C19.") + kind + "." + std::string(clause)}; } while (0)

// ------------------------------------------------------------------ destructor accounting
std::map<uint64_t, int> g_destroyed;   // element id -> times destroyed
void elem_free_u64(void *p) { g_destroyed[*(uint64_t *)p]++; }

// ------------------------------------------------------------------ array
bool run_array(const std::vector<Line> &L, bool &nt) {
  const char *kind = "array";
  g_destroyed.clear();
  ares_array_t *arr = ares_array_create(sizeof(uint64_t), elem_free_u64);
  std::vector<uint64_t> model;
  std::map<uint64_t, int> expect_destroyed;
  uint64_t next_id = 1;
  bool removed = false;
  auto mk = [&](uint64_t v) { return (next_id++ << 20) | (v & 0xfffff); };
  auto verify = [&]() {
    CHECK(ares_array_len(arr) == model.size(), "len");
    for (size_t i = 0; i < model.size(); i++) {
      uint64_t *p = (uint64_t *)ares_array_at(arr, i);
      CHECK(p != nullptr, "at-null");
      CHECK(*p == model[i], "order");
    }
    CHECK(ares_array_at(arr, model.size()) == nullptr, "at-past-end");
    if (model.empty()) { CHECK(ares_array_first(arr) == nullptr && ares_array_last(arr) == nullptr, "first-last-empty"); }
    else { CHECK(*(uint64_t *)ares_array_first(arr) == model.front() && *(uint64_t *)ares_array_last(arr) == model.back(), "first-last"); }
    CHECK(g_destroyed == expect_destroyed, "destructor-count");
  };
  try {
    for (auto &l : L) {
      if (l.op == "insert_at" || l.op == "insertdata_at") {
        size_t idx = (size_t)(l.arg(0) % (model.size() + 2)); uint64_t v = mk(l.arg(1));
        bool valid = idx <= model.size();
        ares_status_t st;
        if (l.op == "insert_at") { void *p = nullptr; st = ares_array_insert_at(&p, arr, idx); if (st == ARES_SUCCESS) { CHECK(p != nullptr, "insert-ptr"); CHECK(*(uint64_t *)p == 0, "insert-zeroed"); *(uint64_t *)p = v; } }
        else st = ares_array_insertdata_at(arr, idx, &v);
        CHECK((st == ARES_SUCCESS) == valid, valid ? "insert-rejected" : "insert-bad-index-accepted");
        if (valid) { model.insert(model.begin() + (long)idx, v); if (removed) nt = true; }
      } else if (l.op == "insert_first" || l.op == "insertdata_first") {
        uint64_t v = mk(l.arg(0)); ares_status_t st;
        if (l.op == "insert_first") { void *p = nullptr; st = ares_array_insert_first(&p, arr); if (st == ARES_SUCCESS) *(uint64_t *)p = v; }
        else st = ares_array_insertdata_first(arr, &v);
        CHECK(st == ARES_SUCCESS, "insert-rejected");
        model.insert(model.begin(), v); if (removed) nt = true;
      } else if (l.op == "insert_last" || l.op == "insertdata_last") {
        uint64_t v = mk(l.arg(0)); ares_status_t st;
        if (l.op == "insert_last") { void *p = nullptr; st = ares_array_insert_last(&p, arr); if (st == ARES_SUCCESS) *(uint64_t *)p = v; }
        else st = ares_array_insertdata_last(arr, &v);
        CHECK(st == ARES_SUCCESS, "insert-rejected");
        model.push_back(v); if (removed) nt = true;
      } else if (l.op == "remove_at" || l.op == "claim_at") {
        size_t idx = (size_t)(l.arg(0) % (model.size() + 1));
        bool valid = idx < model.size(); ares_status_t st;
        if (l.op == "remove_at") { st = ares_array_remove_at(arr, idx); if (valid) expect_destroyed[model[idx]]++; }
        else { uint64_t out = 0; st = ares_array_claim_at(&out, sizeof out, arr, idx); if (valid && st == ARES_SUCCESS) CHECK(out == model[idx], "claim-value"); }
        CHECK((st == ARES_SUCCESS) == valid, valid ? "remove-rejected" : "remove-bad-index-accepted");
        if (valid) { model.erase(model.begin() + (long)idx); removed = true; }
      } else if (l.op == "remove_first") {
        ares_status_t st = ares_array_remove_first(arr);
        CHECK((st == ARES_SUCCESS) == !model.empty(), "remove-first");
        if (!model.empty()) { expect_destroyed[model.front()]++; model.erase(model.begin()); removed = true; }
      } else if (l.op == "remove_last") {
        ares_status_t st = ares_array_remove_last(arr);
        CHECK((st == ARES_SUCCESS) == !model.empty(), "remove-last");
        if (!model.empty()) { expect_destroyed[model.back()]++; model.pop_back(); removed = true; }
      } else if (l.op == "set_size") {
        size_t n = (size_t)(l.arg(0) % 300);
        ares_status_t st = ares_array_set_size(arr, n);
        CHECK((st == ARES_SUCCESS) == (n != 0 && n >= model.size()), "set-size");
      } else if (l.op == "sort") {
        ares_status_t st = ares_array_sort(arr, [](const void *a, const void *b) -> int {
          uint64_t x = *(const uint64_t *)a & 0xfffff, y = *(const uint64_t *)b & 0xfffff; if (x != y) return x < y ? -1 : 1;
          uint64_t i = *(const uint64_t *)a, j = *(const uint64_t *)b; return i < j ? -1 : (i > j ? 1 : 0); });
        CHECK(st == ARES_SUCCESS, "sort-status");
        std::sort(model.begin(), model.end(), [](uint64_t a, uint64_t b) { uint64_t x = a & 0xfffff, y = b & 0xfffff; return x != y ? x < y : a < b; });
      } else continue;
      verify();
    }
    // end: finish (even seeds) or destroy
    if (!L.empty() && L[0].op == "seed" && (L[0].arg(0) & 1)) {
      size_t n = 0; uint64_t *raw = (uint64_t *)ares_array_finish(arr, &n); arr = nullptr;
      CHECK(n == model.size(), "finish-len");
      CHECK(model.empty() || raw != nullptr, "finish-null");
      for (size_t i = 0; i < n; i++) CHECK(raw[i] == model[i], "finish-order");
      ares_free(raw);
      CHECK(g_destroyed == expect_destroyed, "destructor-count");
    } else {
      ares_array_destroy(arr); arr = nullptr;
      for (auto v : model) expect_destroyed[v]++;
      CHECK(g_destroyed == expect_destroyed, "destructor-count-at-destroy");
    }
  } catch (Fail &) { if (arr) ares_array_destroy(arr); throw; }
  return true;
}

// ------------------------------------------------------------------ llist (two lists)
bool run_llist(const std::vector<Line> &L, bool &nt) {
  const char *kind = "llist";
  g_destroyed.clear();
  std::map<uint64_t, int> expect_destroyed;
  ares_llist_t *ls[2] = {ares_llist_create([](void *p) { g_destroyed[*(uint64_t *)p]++; delete (uint64_t *)p; }),
                         ares_llist_create([](void *p) { g_destroyed[*(uint64_t *)p]++; delete (uint64_t *)p; })};
  std::vector<uint64_t> m[2];
  uint64_t next_id = 1; bool removed = false;
  auto mk = [&](uint64_t v) { return new uint64_t((next_id++ << 20) | (v & 0xfffff)); };
  auto nodeat = [&](int w, size_t idx) { return ares_llist_node_idx(ls[w], idx); };
  auto verify = [&]() {
    for (int w = 0; w < 2; w++) {
      CHECK(ares_llist_len(ls[w]) == m[w].size(), "len");
      size_t i = 0;
      for (ares_llist_node_t *n = ares_llist_node_first(ls[w]); n; n = ares_llist_node_next(n), i++) {
        CHECK(i < m[w].size(), "too-long"); CHECK(*(uint64_t *)ares_llist_node_val(n) == m[w][i], "order-forward");
        CHECK(ares_llist_node_parent(n) == ls[w], "parent");
      }
      CHECK(i == m[w].size(), "too-short");
      i = m[w].size();
      for (ares_llist_node_t *n = ares_llist_node_last(ls[w]); n; n = ares_llist_node_prev(n)) { CHECK(i > 0, "too-long-back"); i--; CHECK(*(uint64_t *)ares_llist_node_val(n) == m[w][i], "order-backward"); }
      CHECK(i == 0, "too-short-back");
      if (m[w].empty()) CHECK(ares_llist_first_val(ls[w]) == nullptr && ares_llist_last_val(ls[w]) == nullptr, "first-last-empty");
      else CHECK(*(uint64_t *)ares_llist_first_val(ls[w]) == m[w].front() && *(uint64_t *)ares_llist_last_val(ls[w]) == m[w].back(), "first-last");
      CHECK(ares_llist_node_idx(ls[w], m[w].size()) == nullptr, "idx-past-end");
    }
    CHECK(g_destroyed == expect_destroyed, "destructor-count");
  };
  try {
    for (auto &l : L) {
      int w = (int)(l.arg(0) & 1);
      if (l.op == "insert_first") { uint64_t *v = mk(l.arg(1)); CHECK(ares_llist_insert_first(ls[w], v) != nullptr, "insert"); m[w].insert(m[w].begin(), *v); if (removed) nt = true; }
      else if (l.op == "insert_last") { uint64_t *v = mk(l.arg(1)); CHECK(ares_llist_insert_last(ls[w], v) != nullptr, "insert"); m[w].push_back(*v); if (removed) nt = true; }
      else if (l.op == "insert_before" || l.op == "insert_after") {
        if (m[w].empty()) continue;
        size_t idx = (size_t)(l.arg(1) % m[w].size()); uint64_t *v = mk(l.arg(2));
        ares_llist_node_t *n = nodeat(w, idx); CHECK(n != nullptr, "idx");
        if (l.op == "insert_before") { CHECK(ares_llist_insert_before(n, v) != nullptr, "insert"); m[w].insert(m[w].begin() + (long)idx, *v); }
        else { CHECK(ares_llist_insert_after(n, v) != nullptr, "insert"); m[w].insert(m[w].begin() + (long)idx + 1, *v); }
        if (removed) nt = true;
      } else if (l.op == "destroy_node" || l.op == "claim") {
        if (m[w].empty()) continue;
        size_t idx = (size_t)(l.arg(1) % m[w].size()); ares_llist_node_t *n = nodeat(w, idx); CHECK(n != nullptr, "idx");
        if (l.op == "destroy_node") { expect_destroyed[m[w][idx]]++; ares_llist_node_destroy(n); }
        else { uint64_t *v = (uint64_t *)ares_llist_node_claim(n); CHECK(v && *v == m[w][idx], "claim-value"); delete v; }
        m[w].erase(m[w].begin() + (long)idx); removed = true;
      } else if (l.op == "replace") {
        if (m[w].empty()) continue;
        size_t idx = (size_t)(l.arg(1) % m[w].size()); ares_llist_node_t *n = nodeat(w, idx); CHECK(n != nullptr, "idx");
        uint64_t *v = mk(l.arg(2)); expect_destroyed[m[w][idx]]++; ares_llist_node_replace(n, v); m[w][idx] = *v;
      } else if (l.op == "mv_last" || l.op == "mv_first") {
        if (m[w].empty()) continue;
        int d = (int)(l.arg(2) & 1);
        size_t idx = (size_t)(l.arg(1) % m[w].size()); ares_llist_node_t *n = nodeat(w, idx); CHECK(n != nullptr, "idx");
        uint64_t v = m[w][idx];
        if (l.op == "mv_last") ares_llist_node_mvparent_last(n, ls[d]); else ares_llist_node_mvparent_first(n, ls[d]);
        m[w].erase(m[w].begin() + (long)idx);
        if (l.op == "mv_last") m[d].push_back(v); else m[d].insert(m[d].begin(), v);
        nt = true;
      } else if (l.op == "clear") { for (auto v : m[w]) expect_destroyed[v]++; ares_llist_clear(ls[w]); if (!m[w].empty()) removed = true; m[w].clear(); }
      else continue;
      verify();
    }
    for (int w = 0; w < 2; w++) { for (auto v : m[w]) expect_destroyed[v]++; ares_llist_destroy(ls[w]); ls[w] = nullptr; }
    CHECK(g_destroyed == expect_destroyed, "destructor-count-at-destroy");
  } catch (Fail &) { for (int w = 0; w < 2; w++) if (ls[w]) ares_llist_destroy(ls[w]); throw; }
  return true;
}

// ------------------------------------------------------------------ slist
struct SItem { uint64_t key; uint64_t id; };
bool run_slist(const std::vector<Line> &L, bool &nt) {
  const char *kind = "slist";
  g_destroyed.clear();
  std::map<uint64_t, int> expect_destroyed;
  ares_rand_state *rs = ares_init_rand_state();
  if (!rs) return true;
  ares_slist_t *sl = ares_slist_create(rs, [](const void *a, const void *b) -> int { uint64_t x = ((const SItem *)a)->key, y = ((const SItem *)b)->key; return x < y ? -1 : (x > y ? 1 : 0); },
                                       [](void *p) { g_destroyed[((SItem *)p)->id]++; delete (SItem *)p; });
  std::multimap<uint64_t, uint64_t> model;  // key -> id
  uint64_t next_id = 1; bool removed = false;
  auto nth = [&](size_t idx) { ares_slist_node_t *n = ares_slist_node_first(sl); while (n && idx--) n = ares_slist_node_next(n); return n; };
  auto erase_model = [&](SItem *it) { auto r = model.equal_range(it->key); for (auto i = r.first; i != r.second; ++i) if (i->second == it->id) { model.erase(i); return true; } return false; };
  auto verify = [&]() {
    CHECK(ares_slist_len(sl) == model.size(), "len");
    std::multiset<std::pair<uint64_t, uint64_t>> seen, want;
    for (auto &kv : model) want.insert({kv.first, kv.second});
    uint64_t prev = 0; size_t cnt = 0; ares_slist_node_t *lastn = nullptr;
    for (ares_slist_node_t *n = ares_slist_node_first(sl); n; n = ares_slist_node_next(n)) {
      SItem *it = (SItem *)ares_slist_node_val(n); CHECK(it != nullptr, "val-null");
      CHECK(cnt == 0 || it->key >= prev, "sorted");
      prev = it->key; cnt++; seen.insert({it->key, it->id}); lastn = n;
      CHECK(cnt <= model.size(), "too-long");
      CHECK(ares_slist_node_parent(n) == sl, "parent");
    }
    CHECK(seen == want, "lost-or-duplicated");
    CHECK(ares_slist_node_last(sl) == lastn, "tail");
    size_t back = 0; uint64_t nextk = 0;
    for (ares_slist_node_t *n = ares_slist_node_last(sl); n; n = ares_slist_node_prev(n)) { SItem *it = (SItem *)ares_slist_node_val(n); CHECK(back == 0 || it->key <= nextk, "sorted-backward"); nextk = it->key; back++; CHECK(back <= model.size(), "too-long-back"); }
    CHECK(back == model.size(), "backward-count");
    if (model.empty()) CHECK(ares_slist_first_val(sl) == nullptr && ares_slist_last_val(sl) == nullptr, "first-last-empty");
    else { CHECK(((SItem *)ares_slist_first_val(sl))->key == model.begin()->first, "first-min"); CHECK(((SItem *)ares_slist_last_val(sl))->key == model.rbegin()->first, "last-max"); }
    CHECK(g_destroyed == expect_destroyed, "destructor-count");
  };
  try {
    for (auto &l : L) {
      if (l.op == "seed") { rng_seed(l.arg(0)); continue; }
      if (l.op == "insert") {
        SItem *it = new SItem{l.arg(0) % 5000, next_id++};
        CHECK(ares_slist_insert(sl, it) != nullptr, "insert"); model.insert({it->key, it->id}); if (removed) nt = true;
      } else if (l.op == "find") {
        SItem probe{l.arg(0) % 5000, 0}; ares_slist_node_t *n = ares_slist_node_find(sl, &probe);
        CHECK((n != nullptr) == (model.count(probe.key) > 0), "find-presence");
        if (n) { CHECK(((SItem *)ares_slist_node_val(n))->key == probe.key, "find-key"); ares_slist_node_t *p = ares_slist_node_prev(n); CHECK(!p || ((SItem *)ares_slist_node_val(p))->key < probe.key, "find-first-match"); }
      } else if (l.op == "find_existing") {
        if (model.empty()) continue; auto it = model.begin(); std::advance(it, (long)(l.arg(0) % model.size()));
        SItem probe{it->first, 0}; ares_slist_node_t *n = ares_slist_node_find(sl, &probe); CHECK(n != nullptr, "find-presence");
        CHECK(((SItem *)ares_slist_node_val(n))->key == probe.key, "find-key");
      } else if (l.op == "destroy_node" || l.op == "claim") {
        if (model.empty()) continue; ares_slist_node_t *n = nth((size_t)(l.arg(0) % model.size())); CHECK(n != nullptr, "walk");
        SItem *it = (SItem *)ares_slist_node_val(n); CHECK(erase_model(it), "unknown-element");
        if (l.op == "destroy_node") { expect_destroyed[it->id]++; ares_slist_node_destroy(n); }
        else { SItem *c = (SItem *)ares_slist_node_claim(n); CHECK(c == it, "claim-value"); delete c; }
        removed = true;
      } else if (l.op == "reinsert") {
        if (model.empty()) continue; ares_slist_node_t *n = nth((size_t)(l.arg(0) % model.size())); CHECK(n != nullptr, "walk");
        SItem *it = (SItem *)ares_slist_node_val(n); CHECK(erase_model(it), "unknown-element");
        it->key = l.arg(1) % 5000; ares_slist_node_reinsert(n); model.insert({it->key, it->id}); nt = true;
      } else continue;
      verify();
    }
    for (auto &kv : model) expect_destroyed[kv.second]++;
    ares_slist_destroy(sl); sl = nullptr;
    CHECK(g_destroyed == expect_destroyed, "destructor-count-at-destroy");
    ares_destroy_rand_state(rs);
  } catch (Fail &) { if (sl) ares_slist_destroy(sl); ares_destroy_rand_state(rs); throw; }
  return true;
}

// ------------------------------------------------------------------ hash tables
std::string key_str(uint64_t k, uint64_t variant) {
  // small and large key spaces, with case variants (strvp/dict compare case-insensitively)
  std::string s = "Key" + std::to_string(k % 3000) + "x";
  if (variant & 1) for (auto &c : s) c = (char)toupper((unsigned char)c);
  if (variant & 2) for (auto &c : s) c = (char)tolower((unsigned char)c);
  return s;
}
std::string lower(std::string s) { for (auto &c : s) c = (char)tolower((unsigned char)c); return s; }
std::map<uint64_t, int> g_valfree;
void val_free(void *p) { if (!p) return; g_valfree[*(uint64_t *)p]++; delete (uint64_t *)p; }

bool run_htable(const std::vector<Line> &L, bool &nt, const std::string &flavour) {
  std::string kind_s = "htable-" + flavour; const char *kind = kind_s.c_str();
  g_valfree.clear();
  std::map<uint64_t, int> expect_free;
  uint64_t next_id = 1;
  ares_htable_strvp_t *hs = nullptr; ares_htable_szvp_t *hz = nullptr; ares_htable_dict_t *hd = nullptr; ares_htable_asvp_t *ha = nullptr; ares_htable_vpvp_t *hv = nullptr; ares_htable_vpstr_t *hp = nullptr;
  std::map<std::string, uint64_t> ms;           // strvp: lower(key) -> value id
  std::map<uint64_t, uint64_t> mz;              // szvp / asvp / vpvp
  std::map<std::string, std::string> md;        // dict: lower(key) -> value string
  std::map<uint64_t, std::string> mp;           // vpstr
  if (flavour == "strvp") hs = ares_htable_strvp_create(val_free);
  else if (flavour == "szvp") hz = ares_htable_szvp_create(val_free);
  else if (flavour == "dict") hd = ares_htable_dict_create();
  else if (flavour == "asvp") ha = ares_htable_asvp_create(val_free);
  else if (flavour == "vpvp") hv = ares_htable_vpvp_create(nullptr, val_free);
  else hp = ares_htable_vpstr_create();
  size_t maxkeys = 0;
  auto numkeys = [&]() -> size_t { return hs ? ares_htable_strvp_num_keys(hs) : hz ? ares_htable_szvp_num_keys(hz) : hd ? ares_htable_dict_num_keys(hd) : ha ? ares_htable_asvp_num_keys(ha) : hv ? ares_htable_vpvp_num_keys(hv) : ares_htable_vpstr_num_keys(hp); };
  auto msize = [&]() -> size_t { return hs ? ms.size() : hd ? md.size() : hp ? mp.size() : mz.size(); };
  auto insert = [&](uint64_t k, uint64_t variant, uint64_t v) {
    if (hs) { std::string key = key_str(k, variant); uint64_t *val = new uint64_t(next_id++); auto it = ms.find(lower(key)); if (it != ms.end()) expect_free[it->second]++;
      CHECK(ares_htable_strvp_insert(hs, key.c_str(), val), "insert"); ms[lower(key)] = *val; }
    else if (hd) { std::string key = key_str(k, variant), val = "v" + std::to_string(v); CHECK(ares_htable_dict_insert(hd, key.c_str(), val.c_str()), "insert"); md[lower(key)] = val; }
    else if (hp) { std::string val = "v" + std::to_string(v); CHECK(ares_htable_vpstr_insert(hp, (void *)(uintptr_t)(k * 8 + 8), val.c_str()), "insert"); mp[k * 8 + 8] = val; }
    else { uint64_t *val = new uint64_t(next_id++); uint64_t kk = ha ? (k % 100000) : k; auto it = mz.find(kk); if (it != mz.end()) expect_free[it->second]++;
      bool ok = hz ? ares_htable_szvp_insert(hz, (size_t)kk, val) : ha ? ares_htable_asvp_insert(ha, (ares_socket_t)kk, val) : ares_htable_vpvp_insert(hv, (void *)(uintptr_t)(kk * 8 + 8), val);
      CHECK(ok, "insert"); mz[kk] = *val; }
  };
  auto verify_key = [&](uint64_t k, uint64_t variant) {
    if (hs) { std::string key = key_str(k, variant); void *v = nullptr; bool got = ares_htable_strvp_get(hs, key.c_str(), &v); auto it = ms.find(lower(key));
      CHECK(got == (it != ms.end()), "get-presence"); if (got) CHECK(v && *(uint64_t *)v == it->second, "get-latest-value");
      CHECK((ares_htable_strvp_get_direct(hs, key.c_str()) != nullptr) == got, "get-direct"); }
    else if (hd) { std::string key = key_str(k, variant); const char *v = nullptr; bool got = ares_htable_dict_get(hd, key.c_str(), &v); auto it = md.find(lower(key));
      CHECK(got == (it != md.end()), "get-presence"); if (got) CHECK(v && it->second == v, "get-latest-value"); }
    else if (hp) { const char *v = nullptr; bool got = ares_htable_vpstr_get(hp, (void *)(uintptr_t)(k * 8 + 8), &v); auto it = mp.find(k * 8 + 8);
      CHECK(got == (it != mp.end()), "get-presence"); if (got) CHECK(v && it->second == v, "get-latest-value"); }
    else { uint64_t kk = ha ? (k % 100000) : k; void *v = nullptr; bool got = hz ? ares_htable_szvp_get(hz, (size_t)kk, &v) : ha ? ares_htable_asvp_get(ha, (ares_socket_t)kk, &v) : ares_htable_vpvp_get(hv, (void *)(uintptr_t)(kk * 8 + 8), &v);
      auto it = mz.find(kk); CHECK(got == (it != mz.end()), "get-presence"); if (got) CHECK(v && *(uint64_t *)v == it->second, "get-latest-value"); }
  };
  auto remove = [&](uint64_t k, uint64_t variant, bool claim) {
    if (hs) { std::string key = key_str(k, variant); auto it = ms.find(lower(key)); bool had = it != ms.end();
      if (claim) { void *v = ares_htable_strvp_claim(hs, key.c_str()); CHECK((v != nullptr) == had, "claim-presence"); if (v) { CHECK(*(uint64_t *)v == it->second, "claim-value"); delete (uint64_t *)v; } }
      else { if (had) expect_free[it->second]++; CHECK(ares_htable_strvp_remove(hs, key.c_str()) == had, "remove-presence"); }
      if (had) ms.erase(it); }
    else if (hd) { std::string key = key_str(k, variant); bool had = md.count(lower(key)) > 0; CHECK(ares_htable_dict_remove(hd, key.c_str()) == had, "remove-presence"); md.erase(lower(key)); }
    else if (hp) { bool had = mp.count(k * 8 + 8) > 0; CHECK(ares_htable_vpstr_remove(hp, (void *)(uintptr_t)(k * 8 + 8)) == had, "remove-presence"); mp.erase(k * 8 + 8); }
    else { uint64_t kk = ha ? (k % 100000) : k; auto it = mz.find(kk); bool had = it != mz.end(); if (had) expect_free[it->second]++;
      bool ok = hz ? ares_htable_szvp_remove(hz, (size_t)kk) : ha ? ares_htable_asvp_remove(ha, (ares_socket_t)kk) : ares_htable_vpvp_remove(hv, (void *)(uintptr_t)(kk * 8 + 8));
      CHECK(ok == had, "remove-presence"); if (had) mz.erase(it); }
  };
  auto verify_all = [&](bool deep) {
    CHECK(numkeys() == msize(), "num-keys");
    CHECK(g_valfree == expect_free, "value-free-count");
    if (!deep) return;
    if (hs) for (auto &kv : ms) { void *v = nullptr; CHECK(ares_htable_strvp_get(hs, kv.first.c_str(), &v) && *(uint64_t *)v == kv.second, "live-key-lost"); }
    else if (hd) { for (auto &kv : md) { const char *v = nullptr; CHECK(ares_htable_dict_get(hd, kv.first.c_str(), &v) && kv.second == v, "live-key-lost"); }
      size_t n = 0; char **keys = ares_htable_dict_keys(hd, &n); CHECK(n == md.size(), "keys-count"); CHECK(n == 0 || keys != nullptr, "keys-null");
      std::multiset<std::string> a, b; for (size_t i = 0; i < n; i++) a.insert(lower(keys[i])); for (auto &kv : md) b.insert(kv.first); ares_free_array(keys, n, ares_free); CHECK(a == b, "keys-set"); }
    else if (hp) for (auto &kv : mp) { const char *v = nullptr; CHECK(ares_htable_vpstr_get(hp, (void *)(uintptr_t)kv.first, &v) && kv.second == v, "live-key-lost"); }
    else { for (auto &kv : mz) { void *v = nullptr; bool got = hz ? ares_htable_szvp_get(hz, (size_t)kv.first, &v) : ha ? ares_htable_asvp_get(ha, (ares_socket_t)kv.first, &v) : ares_htable_vpvp_get(hv, (void *)(uintptr_t)(kv.first * 8 + 8), &v); CHECK(got && *(uint64_t *)v == kv.second, "live-key-lost"); }
      if (ha) { size_t n = 0; ares_socket_t *keys = ares_htable_asvp_keys(ha, &n); CHECK(n == mz.size(), "keys-count"); std::multiset<uint64_t> a, b; for (size_t i = 0; i < n; i++) a.insert((uint64_t)keys[i]); for (auto &kv : mz) b.insert(kv.first); ares_free(keys); CHECK(a == b, "keys-set"); } }
  };
  bool ok = true; Fail ff;
  try {
    size_t step = 0;
    for (auto &l : L) {
      if (l.op == "insert") insert(l.arg(0), l.arg(2), l.arg(1));
      else if (l.op == "bulk") { uint64_t base = l.arg(0) % 3000, n = l.arg(1) % 200; for (uint64_t i = 0; i < n; i++) insert(base + i, l.arg(2) + i, i); }
      else if (l.op == "get") verify_key(l.arg(0), l.arg(1));
      else if (l.op == "remove") remove(l.arg(0), l.arg(1), false);
      else if (l.op == "claim") remove(l.arg(0), l.arg(1), true);
      else if (l.op == "bulk_remove") { uint64_t base = l.arg(0) % 3000, n = l.arg(1) % 200; for (uint64_t i = 0; i < n; i++) remove(base + i, i, false); }
      else continue;
      maxkeys = std::max(maxkeys, msize());
      verify_all((++step % 4) == 0 || msize() < 40);
    }
    verify_all(true);
    if (maxkeys > 12) nt = true;   // default table has 16 buckets and grows at 75% load: > 12 keys crossed >= 1 rehash
    if (hs) { for (auto &kv : ms) expect_free[kv.second]++; } else if (!hd && !hp) for (auto &kv : mz) expect_free[kv.second]++;
  } catch (Fail &f) { ok = false; ff = f; }
  if (hs) ares_htable_strvp_destroy(hs); if (hz) ares_htable_szvp_destroy(hz); if (hd) ares_htable_dict_destroy(hd); if (ha) ares_htable_asvp_destroy(ha); if (hv) ares_htable_vpvp_destroy(hv); if (hp) ares_htable_vpstr_destroy(hp);
  if (!ok) throw ff;
  CHECK(g_valfree == expect_free, "value-free-count-at-destroy");
  return true;
}

// ------------------------------------------------------------------ buf
std::string gen_bytes(uint64_t n, uint64_t pat, uint64_t mode) {
  static const char text[] = "ab, \n\tXY=:;c  \r0 9#";
  std::string s; n %= 300;
  for (uint64_t i = 0; i < n; i++) {
    if (mode % 3 == 0) s += (char)((pat * 31 + i * 7 + (i >> 3)) & 0xff);
    else s += text[(pat * 5 + i * (1 + pat % 7) + (i >> 2)) % (sizeof text - 1)];
  }
  return s;
}
bool is_ws(unsigned char c, bool lf) { return c == '\r' || c == '\t' || c == ' ' || c == '\v' || c == '\f' || (lf && c == '\n'); }

bool run_buf(const std::vector<Line> &L, bool &nt) {
  const char *kind = "buf";
  ares_buf_t *buf = ares_buf_create();
  std::string all;          // every byte appended (minus truncations)
  size_t off = 0;           // absolute read position in 'all'
  bool tagged = false; size_t tag = 0;
  bool appended = false;
  auto rem = [&]() { return all.substr(off); };
  auto verify = [&]() {
    CHECK(ares_buf_len(buf) == all.size() - off, "len");
    size_t pl = 0; const unsigned char *p = ares_buf_peek(buf, &pl);
    CHECK(pl == all.size() - off, "peek-len");
    CHECK(pl == 0 || (p && memcmp(p, all.data() + off, pl) == 0), "remaining-bytes");
    if (!appended) return;  // never-appended buffer has no data pointer; callers do not fetch tags from it
    if (tagged) { size_t tl = 0; const unsigned char *t = ares_buf_tag_fetch(buf, &tl); CHECK(t != nullptr || off == tag, "tag-fetch-null"); CHECK(tl == off - tag, "tag-length"); CHECK(tl == 0 || memcmp(t, all.data() + tag, tl) == 0, "tag-bytes"); CHECK(ares_buf_tag_length(buf) == off - tag, "tag-length"); }
    else { size_t tl = 0; CHECK(ares_buf_tag_fetch(buf, &tl) == nullptr, "tag-fetch-untagged"); CHECK(ares_buf_tag_length(buf) == 0, "tag-length-untagged"); }
  };
  bool ok = true; Fail ff;
  try {
    for (auto &l : L) {
      if (l.op == "append") { std::string b = gen_bytes(l.arg(0), l.arg(1), l.arg(2)); CHECK(ares_buf_append(buf, (const unsigned char *)b.data(), b.size()) == ARES_SUCCESS, "append"); all += b; if (!b.empty()) appended = true; }
      else if (l.op == "append_big") { std::string b; uint64_t n = 1 + l.arg(0) % 40; for (uint64_t i = 0; i < n; i++) b += gen_bytes(299, l.arg(1) + i, l.arg(2)); CHECK(ares_buf_append(buf, (const unsigned char *)b.data(), b.size()) == ARES_SUCCESS, "append"); all += b; appended = true; }
      else if (l.op == "append_byte") { CHECK(ares_buf_append_byte(buf, (unsigned char)l.arg(0)) == ARES_SUCCESS, "append"); all += (char)l.arg(0); appended = true; }
      else if (l.op == "append_be16") { CHECK(ares_buf_append_be16(buf, (unsigned short)l.arg(0)) == ARES_SUCCESS, "append"); all += (char)((l.arg(0) >> 8) & 0xff); all += (char)(l.arg(0) & 0xff); appended = true; }
      else if (l.op == "append_be32") { CHECK(ares_buf_append_be32(buf, (unsigned int)l.arg(0)) == ARES_SUCCESS, "append"); for (int s = 24; s >= 0; s -= 8) all += (char)((l.arg(0) >> s) & 0xff); appended = true; }
      else if (l.op == "append_str") { std::string b = gen_bytes(l.arg(0), l.arg(1), 1); CHECK(ares_buf_append_str(buf, b.c_str()) == ARES_SUCCESS, "append"); all += b; if (!b.empty()) appended = true; }
      else if (l.op == "append_num_dec") { size_t len = (size_t)(l.arg(1) % 8); uint64_t num = l.arg(0); char tmp[64]; snprintf(tmp, sizeof tmp, "%llu", (unsigned long long)num); std::string d = tmp;
        ares_status_t st = ares_buf_append_num_dec(buf, (size_t)num, len);
        CHECK(st == ARES_SUCCESS, "append-num");
        std::string want = d; if (len) { if (d.size() >= len) want = d.substr(d.size() - len); else want = std::string(len - d.size(), '0') + d; }
        all += want; appended = true; }
      else if (l.op == "append_start") { size_t want = 1 + (size_t)(l.arg(0) % 200); size_t len = want; unsigned char *p = ares_buf_append_start(buf, &len); CHECK(p != nullptr, "append-start"); CHECK(len >= want, "append-start-len");
        std::string b = gen_bytes(want, l.arg(1), 0); size_t use = std::min(b.size(), (size_t)(l.arg(2) % (want + 1))); memcpy(p, b.data(), use); ares_buf_append_finish(buf, use); all += b.substr(0, use); if (use) appended = true; }
      else if (l.op == "fetch_be16") { unsigned short v = 0; ares_status_t st = ares_buf_fetch_be16(buf, &v); bool can = all.size() - off >= 2; CHECK((st == ARES_SUCCESS) == can, "fetch-status"); if (can) { CHECK(v == (((unsigned char)all[off] << 8) | (unsigned char)all[off + 1]), "fetch-value"); off += 2; } }
      else if (l.op == "fetch_be32") { unsigned int v = 0; ares_status_t st = ares_buf_fetch_be32(buf, &v); bool can = all.size() - off >= 4; CHECK((st == ARES_SUCCESS) == can, "fetch-status"); if (can) { unsigned int w = 0; for (int i = 0; i < 4; i++) w = (w << 8) | (unsigned char)all[off + (size_t)i]; CHECK(v == w, "fetch-value"); off += 4; } }
      else if (l.op == "fetch_bytes") { size_t n = (size_t)(l.arg(0) % 400); std::vector<unsigned char> out(n + 1); ares_status_t st = ares_buf_fetch_bytes(buf, out.data(), n); bool can = n != 0 && all.size() - off >= n; CHECK((st == ARES_SUCCESS) == can, "fetch-status"); if (can) { CHECK(memcmp(out.data(), all.data() + off, n) == 0, "fetch-value"); off += n; } }
      else if (l.op == "fetch_dup") { size_t n = (size_t)(l.arg(0) % 400); unsigned char *out = nullptr; ares_status_t st = ares_buf_fetch_bytes_dup(buf, n, (l.arg(1) & 1) ? ARES_TRUE : ARES_FALSE, &out); bool can = n != 0 && all.size() - off >= n; CHECK((st == ARES_SUCCESS) == can, "fetch-status"); if (can) { bool same = memcmp(out, all.data() + off, n) == 0 && (!(l.arg(1) & 1) || out[n] == 0); ares_free(out); CHECK(same, "fetch-value"); off += n; } }
      else if (l.op == "fetch_into_buf") { size_t n = (size_t)(l.arg(0) % 400); ares_buf_t *d = ares_buf_create(); ares_status_t st = ares_buf_fetch_bytes_into_buf(buf, d, n); bool can = n != 0 && all.size() - off >= n; bool good = (st == ARES_SUCCESS) == can; if (good && can) { size_t dl = 0; const unsigned char *dp = ares_buf_peek(d, &dl); good = dl == n && memcmp(dp, all.data() + off, n) == 0; } ares_buf_destroy(d); CHECK(good, "fetch-into-buf"); if (can) off += n; }
      else if (l.op == "consume") { size_t n = (size_t)(l.arg(0) % 400); ares_status_t st = ares_buf_consume(buf, n); bool can = all.size() - off >= n; CHECK((st == ARES_SUCCESS) == can, "consume-status"); if (can) off += n; }
      else if (l.op == "tag") { ares_buf_tag(buf); tagged = true; tag = off; }
      else if (l.op == "rollback") { ares_status_t st = ares_buf_tag_rollback(buf); CHECK((st == ARES_SUCCESS) == tagged, "rollback-status"); if (tagged) { if (appended && off != tag) nt = true; off = tag; tagged = false; } }
      else if (l.op == "tag_clear") { ares_status_t st = ares_buf_tag_clear(buf); CHECK((st == ARES_SUCCESS) == tagged, "tag-clear-status"); tagged = false; }
      else if (l.op.rfind("tag_fetch_", 0) == 0 && !appended) continue;  // no data pointer yet (see verify)
      else if (l.op == "tag_fetch_bytes") { size_t cap = (size_t)(l.arg(0) % 400); std::vector<unsigned char> out(cap + 1); size_t len = cap; ares_status_t st = ares_buf_tag_fetch_bytes(buf, out.data(), &len); bool can = tagged && cap >= off - tag; CHECK((st == ARES_SUCCESS) == can, "tag-fetch-bytes-status"); if (can) { CHECK(len == off - tag && memcmp(out.data(), all.data() + tag, len) == 0, "tag-fetch-bytes-value"); } }
      else if (l.op == "tag_fetch_string") { size_t cap = 1 + (size_t)(l.arg(0) % 400); std::vector<char> out(cap + 1, 'Z'); ares_status_t st = ares_buf_tag_fetch_string(buf, out.data(), cap);
        if (!tagged || cap - 1 < off - tag) CHECK(st != ARES_SUCCESS, "tag-fetch-string-status");
        else { std::string w = all.substr(tag, off - tag); bool printable = true; for (unsigned char c : w) if (c < 0x20 || c > 0x7e) printable = false; CHECK((st == ARES_SUCCESS) == printable, "tag-fetch-string-status"); if (printable) CHECK(w == out.data(), "tag-fetch-string-value"); CHECK(out[cap] == 'Z', "tag-fetch-string-overrun"); } }
      else if (l.op == "tag_fetch_strdup") { char *s = nullptr; ares_status_t st = ares_buf_tag_fetch_strdup(buf, &s); if (!tagged) CHECK(st != ARES_SUCCESS, "tag-fetch-strdup-status"); else { std::string w = all.substr(tag, off - tag); bool printable = true; for (unsigned char c : w) if (c < 0x20 || c > 0x7e) printable = false; bool good = (st == ARES_SUCCESS) == printable && (!printable || w == s); ares_free(s); CHECK(good, "tag-fetch-strdup"); } }
      else if (l.op == "set_length") { if (!appended) continue; size_t r = all.size() - off; size_t n = (size_t)(l.arg(0) % (r + 1)); CHECK(ares_buf_set_length(buf, n) == ARES_SUCCESS, "set-length"); all.resize(off + n); }
      else if (l.op == "reclaim") { ares_buf_reclaim(buf); }
      else if (l.op == "consume_ws") { bool lf = l.arg(0) & 1; size_t i = off; while (i < all.size() && is_ws((unsigned char)all[i], lf)) i++; size_t got = ares_buf_consume_whitespace(buf, lf ? ARES_TRUE : ARES_FALSE); CHECK(got == i - off, "consume-whitespace"); off = i; }
      else if (l.op == "consume_nonws") { size_t i = off; while (i < all.size() && !is_ws((unsigned char)all[i], true)) i++; size_t got = ares_buf_consume_nonwhitespace(buf); CHECK(got == i - off, "consume-nonwhitespace"); off = i; }
      else if (l.op == "consume_line") { bool lf = l.arg(0) & 1; size_t i = off; while (i < all.size() && all[i] != '\n') i++; if (lf && i < all.size()) i++; size_t got = ares_buf_consume_line(buf, lf ? ARES_TRUE : ARES_FALSE); CHECK(got == i - off, "consume-line"); off = i; }
      else if (l.op == "consume_charset" || l.op == "consume_until") { static const char *sets[] = {",", " \t", "ab", "=:;", "\n"}; std::string cs = sets[l.arg(0) % 5]; size_t i = off;
        if (l.op == "consume_charset") { while (i < all.size() && cs.find(all[i]) != std::string::npos) i++; size_t got = ares_buf_consume_charset(buf, (const unsigned char *)cs.data(), cs.size()); CHECK(got == i - off, "consume-charset"); off = i; }
        else { bool req = l.arg(1) & 1; while (i < all.size() && cs.find(all[i]) == std::string::npos) i++; bool found = i < all.size(); size_t got = ares_buf_consume_until_charset(buf, (const unsigned char *)cs.data(), cs.size(), req ? ARES_TRUE : ARES_FALSE);
          if (all.size() == off) { CHECK(got == 0 || (req && got == SIZE_MAX), "consume-until-empty"); }
          else if (req && !found) CHECK(got == SIZE_MAX, "consume-until-required"); else { CHECK(got == i - off, "consume-until"); off = i; } } }
      else if (l.op == "begins_with") { std::string b = gen_bytes(1 + l.arg(0) % 4, l.arg(1), 1); bool want = rem().compare(0, b.size(), b) == 0 && rem().size() >= b.size(); CHECK((ares_buf_begins_with(buf, (const unsigned char *)b.data(), b.size()) == ARES_TRUE) == want, "begins-with"); }
      else if (l.op == "split") {
        // split the remaining data (consumes it); reference = plain split on any delimiter
        static const char *sets[] = {",", " \t", "=:;", "\n"}; std::string cs = sets[l.arg(0) % 4]; unsigned fl = 0; uint64_t f = l.arg(1);
        if (f & 1) fl |= ARES_BUF_SPLIT_ALLOW_BLANK; if (f & 2) fl |= ARES_BUF_SPLIT_LTRIM; if (f & 4) fl |= ARES_BUF_SPLIT_RTRIM; if (f & 8) fl |= ARES_BUF_SPLIT_NO_DUPLICATES; if (f & 16) fl |= ARES_BUF_SPLIT_CASE_INSENSITIVE;
        size_t maxs = (size_t)(l.arg(2) % 5);
        std::string r = rem(); std::vector<std::string> want;
        if (!r.empty()) { std::vector<std::string> parts; size_t s = 0; for (size_t i = 0; i <= r.size(); i++) { bool last = maxs && parts.size() >= maxs - 1; if (i == r.size() || (!last && cs.find(r[i]) != std::string::npos)) { parts.push_back(r.substr(s, i - s)); s = i + 1; } }
          // note: with max_sections the limit counts emitted sections; only exercise it with ALLOW_BLANK and no dedup so both views agree
          for (auto p : parts) { if (fl & ARES_BUF_SPLIT_LTRIM) { size_t i = 0; while (i < p.size() && is_ws((unsigned char)p[i], true)) i++; p = p.substr(i); } if (fl & ARES_BUF_SPLIT_RTRIM) { while (!p.empty() && is_ws((unsigned char)p.back(), true)) p.pop_back(); }
            if (p.empty() && !(fl & ARES_BUF_SPLIT_ALLOW_BLANK)) continue;
            if (fl & ARES_BUF_SPLIT_NO_DUPLICATES) { bool dup = false; for (auto &q : want) { if (q.size() == p.size() && ((fl & ARES_BUF_SPLIT_CASE_INSENSITIVE) ? lower(q) == lower(p) : q == p)) dup = true; } if (dup) continue; }
            want.push_back(p); } }
        if (maxs && (!(fl & ARES_BUF_SPLIT_ALLOW_BLANK) || (fl & ARES_BUF_SPLIT_NO_DUPLICATES))) continue;
        if ((fl & ARES_BUF_SPLIT_ALLOW_BLANK) && (fl & ARES_BUF_SPLIT_NO_DUPLICATES)) continue;  // no caller combines them (memcmp on an empty section's NULL data)
        ares_array_t *arr = nullptr; ares_status_t st = ares_buf_split(buf, (const unsigned char *)cs.data(), cs.size(), (ares_buf_split_t)fl, maxs, &arr);
        CHECK(st == ARES_SUCCESS && arr != nullptr, "split-status");
        bool good = ares_array_len(arr) == want.size();
        for (size_t i = 0; good && i < want.size(); i++) { ares_buf_t *b = *(ares_buf_t **)ares_array_at(arr, i); size_t bl = 0; const unsigned char *bp = ares_buf_peek(b, &bl); good = bl == want[i].size() && (bl == 0 || memcmp(bp, want[i].data(), bl) == 0); }
        ares_array_destroy(arr); CHECK(good, "split-sections");
        // position afterwards: everything consumed; split leaves its internal tag set -> resync the tag from the buffer
        if (!r.empty()) { off = all.size(); size_t tl = 0; const unsigned char *t = ares_buf_tag_fetch(buf, &tl); tagged = t != nullptr; if (tagged) tag = off - tl; }
      }
      else if (l.op == "hexstr") { /* parse helper: hex digits */ }
      else continue;
      verify();
    }
    // end: finish_bin / finish_str returns exactly the unconsumed bytes (tag, if set, keeps the bytes from the tag on)
    size_t start = tagged && tag < off ? tag : off;
    std::string want = all.substr(start);
    size_t n = 0;
    if (!L.empty() && L[0].op == "seed" && (L[0].arg(0) & 1)) { unsigned char *p = ares_buf_finish_bin(buf, &n); buf = nullptr; bool good = p && n == want.size() && memcmp(p, want.data(), n) == 0; ares_free(p); CHECK(good, "finish-bin"); }
    else { char *p = ares_buf_finish_str(buf, &n); buf = nullptr; bool good = p && n == want.size() && memcmp(p, want.data(), n) == 0 && p[n] == 0; ares_free(p); CHECK(good, "finish-str"); }
  } catch (Fail &f) { ok = false; ff = f; }
  if (buf) ares_buf_destroy(buf);
  if (!ok) throw ff;
  return true;
}

}  // namespace

namespace vf {
bool run_case(const std::string &text, std::string &sig, bool &nontrivial) {
  ares_verif_rand = verif_rand;
  std::vector<Line> L = parse_lines(text);
  std::string kind;
  std::vector<Line> ops;
  rng_seed(1);
  for (auto &l : L) { if (l.op == "container") { if (!l.w.empty()) kind = l.w[0]; } else ops.push_back(l); }
  for (auto &l : ops) if (l.op == "seed") rng_seed(l.arg(0));
  long live0 = ledger().live;
  try {
    if (kind == "array") run_array(ops, nontrivial);
    else if (kind == "llist") run_llist(ops, nontrivial);
    else if (kind == "slist") run_slist(ops, nontrivial);
    else if (kind == "buf") run_buf(ops, nontrivial);
    else if (kind.rfind("htable-", 0) == 0) run_htable(ops, nontrivial, kind.substr(7));
    else { sig = "C19.harness.unknown-container"; return false; }
  } catch (Fail &f) { sig = f.sig; return false; }
  if (ledger().live != live0) { sig = "C19." + kind + ".leak"; return false; }
  stats().count("container." + kind);
  if (nontrivial) stats().count("nontrivial." + kind);
  return true;
}
}  // namespace vf

int main(int argc, char **argv) {
  ares_library_init_mem(ARES_LIB_INIT_ALL, ledger_malloc, ledger_free, ledger_realloc);
  std::vector<Mode> modes;
  modes.push_back({"array", [] { return g_program("container array\n", {{"insert_at", 5, 2}, {"insertdata_at", 3, 2}, {"insert_first", 2, 1}, {"insertdata_first", 2, 1}, {"insert_last", 4, 1}, {"insertdata_last", 3, 1}, {"remove_at", 4, 1}, {"claim_at", 2, 1}, {"remove_first", 6, 0}, {"remove_last", 3, 0}, {"set_size", 1, 1}, {"sort", 1, 0}}); }});
  modes.push_back({"llist", [] { return g_program("container llist\n", {{"insert_first", 4, 2}, {"insert_last", 4, 2}, {"insert_before", 3, 3}, {"insert_after", 3, 3}, {"destroy_node", 3, 2}, {"claim", 2, 2}, {"replace", 2, 3}, {"mv_last", 4, 3}, {"mv_first", 4, 3}, {"clear", 1, 1}}); }});
  modes.push_back({"slist", [] { return g_program("container slist\n", {{"insert", 10, 1}, {"find", 3, 1}, {"find_existing", 3, 1}, {"destroy_node", 4, 1}, {"claim", 2, 1}, {"reinsert", 5, 2}}, 2); }});
  for (const char *fl : {"strvp", "szvp", "dict", "asvp", "vpvp", "vpstr"}) {
    std::string f = fl;
    modes.push_back({"htable-" + f, [f] { return g_program("container htable-" + f + "\n", {{"insert", 8, 3}, {"bulk", 2, 3}, {"get", 4, 2}, {"remove", 5, 2}, {"claim", 1, 2}, {"bulk_remove", 1, 2}}); }});
  }
  modes.push_back({"buf", [] { return g_program("container buf\n", {{"append", 8, 3}, {"append_big", 1, 3}, {"append_byte", 2, 1}, {"append_be16", 2, 1}, {"append_be32", 2, 1}, {"append_str", 2, 2}, {"append_num_dec", 1, 2}, {"append_start", 2, 3},
      {"fetch_be16", 3, 0}, {"fetch_be32", 2, 0}, {"fetch_bytes", 4, 1}, {"fetch_dup", 2, 2}, {"fetch_into_buf", 1, 1}, {"consume", 4, 1}, {"tag", 5, 0}, {"rollback", 4, 0}, {"tag_clear", 2, 0}, {"tag_fetch_bytes", 2, 1}, {"tag_fetch_string", 2, 1}, {"tag_fetch_strdup", 1, 0},
      {"set_length", 2, 1}, {"reclaim", 2, 0}, {"consume_ws", 2, 1}, {"consume_nonws", 2, 0}, {"consume_line", 2, 1}, {"consume_charset", 2, 1}, {"consume_until", 2, 2}, {"begins_with", 1, 2}, {"split", 1, 3}}, 2); }});
  int rc = rc_harness_main(argc, argv, modes);
  ares_library_cleanup();
  return rc;
}
