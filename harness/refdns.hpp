// refdns: an independent DNS wire codec written from RFC 1035 / 2782 / 3403 / 6891 / 6698 / 7553 / 8659 / 9460.
// Shares no code with c-ares.  Used as the oracle of C04, as the re-parser of C03, by the virtual servers of
// the simulator, and to decode what the legacy APIs return (C08/C18).
//
// Two verdicts per message (DESIGN.md section 4):
//   lenient extraction : fields can be extracted (tolerates trailing bytes after the last RR and unused RDATA tail)
//   strict             : additionally well-formed within the subset c-ares documents (see strict_reason())
#pragma once
#include <cstdint>
#include <map>
#include <string>
#include <vector>

namespace ref {

typedef std::string Bytes;                       // raw octets
struct Name { std::vector<Bytes> labels; bool operator==(const Name &o) const { return labels == o.labels; } bool operator!=(const Name &o) const { return !(*this == o); } };

enum FieldKind { F_U8, F_U16, F_U32, F_NAME, F_STR, F_BIN, F_ABIN, F_ADDR4, F_ADDR6, F_OPTS };
struct Field {
  FieldKind kind;
  uint32_t num = 0;
  Name name;
  Bytes bin;                                      // STR / BIN / ADDR4 / ADDR6
  std::vector<Bytes> abin;                        // ABIN (character-strings)
  std::vector<std::pair<uint16_t, Bytes>> opts;   // OPTS (TLV list)
};

enum {
  T_A = 1, T_NS = 2, T_CNAME = 5, T_SOA = 6, T_PTR = 12, T_HINFO = 13, T_MX = 15, T_TXT = 16, T_SIG = 24, T_AAAA = 28,
  T_SRV = 33, T_NAPTR = 35, T_OPT = 41, T_TLSA = 52, T_SVCB = 64, T_HTTPS = 65, T_ANY = 255, T_URI = 256, T_CAA = 257
};

struct RR {
  Name owner; uint16_t type = 0, klass = 1; uint32_t ttl = 0;
  Bytes rdata;                 // raw RDATA as on the wire (decode) / ignored when fields given (encode)
  bool decoded = false;        // type-specific fields extracted
  std::vector<Field> fields;   // in RDATA order
  size_t rdata_off = 0;        // offset of RDATA in the message (decode)
};
struct Question { Name name; uint16_t type = 1, klass = 1; };
struct Msg {
  uint16_t id = 0; bool qr = false; uint8_t opcode = 0; bool aa = false, tc = false, rd = false, ra = false, z = false, ad = false, cd = false; uint8_t rcode4 = 0;
  std::vector<Question> qd; std::vector<RR> sec[3];   // answer, authority, additional
  uint16_t raw_counts[4] = {0, 0, 0, 0};
  size_t end_off = 0;          // offset after the last RR
};

struct Verdict {
  bool lenient_ok = false;      // fields extracted
  bool strict_ok = false;       // well-formed within the supported subset
  std::string reason;           // first reason it is not strict / not decodable
  bool forbidden = false;       // reason is one the properties forbid outright: forward/self pointer, reserved label type
  int max_ptr_hops = 0;
  bool any_pointer = false;
};

inline bool known_type(uint16_t t) {
  switch (t) { case T_A: case T_NS: case T_CNAME: case T_SOA: case T_PTR: case T_HINFO: case T_MX: case T_TXT: case T_SIG: case T_AAAA: case T_SRV: case T_NAPTR: case T_OPT: case T_TLSA: case T_SVCB: case T_HTTPS: case T_URI: case T_CAA: return true; }
  return false;
}
inline bool printable(const Bytes &b) { for (unsigned char c : b) if (c < 0x20 || c > 0x7e) return false; return true; }

// ---------------------------------------------------------------- decoder
class Decoder {
 public:
  Decoder(const unsigned char *p, size_t n) : p_(p), n_(n) {}
  Verdict v;

  // Name at *pos.  Advances *pos past the in-place part.  Returns false when not decodable.
  bool name(size_t *pos, Name &out, size_t limit_end = (size_t)-1) {
    out.labels.clear();
    size_t cur = *pos; bool jumped = false; size_t lowest = *pos; int hops = 0; size_t total = 1;
    if (limit_end == (size_t)-1) limit_end = n_;
    while (true) {
      if (cur < lowest) lowest = cur;
      if (cur >= n_) return why("name runs past end of message");
      unsigned char c = p_[cur];
      if ((c & 0xc0) == 0xc0) {
        if (cur + 1 >= n_) return why("pointer cut short");
        size_t target = ((size_t)(c & 0x3f) << 8) | p_[cur + 1];
        v.any_pointer = true;
        if (target >= lowest) { v.forbidden = true; return why("compression pointer not strictly backwards"); }
        if (!jumped) { *pos = cur + 2; jumped = true; }
        cur = target; hops++;
        if (hops > v.max_ptr_hops) v.max_ptr_hops = hops;
        if (hops > 16384) return why("pointer loop");   // cannot happen given the strictly-backwards rule
        continue;
      }
      if (c & 0xc0) { v.forbidden = true; return why("reserved label type"); }
      if (c == 0) { if (!jumped) *pos = cur + 1; break; }
      if (cur + 1 + c > n_) return why("label runs past end of message");
      out.labels.push_back(Bytes((const char *)p_ + cur + 1, c));
      total += 1 + (size_t)c;
      cur += 1 + (size_t)c;
    }
    if (total > 255) strict_fail("name longer than 255 octets");
    return true;
  }

  bool decode(Msg &m) {
    if (n_ > 65535) { return why("message longer than 65535"); }
    if (n_ < 12) return why("header cut short");
    m.id = be16(0); uint16_t f = be16(2);
    m.qr = f & 0x8000; m.opcode = (f >> 11) & 0xf; m.aa = f & 0x400; m.tc = f & 0x200; m.rd = f & 0x100; m.ra = f & 0x80; m.z = f & 0x40; m.ad = f & 0x20; m.cd = f & 0x10; m.rcode4 = f & 0xf;
    for (int i = 0; i < 4; i++) m.raw_counts[i] = be16(4 + 2 * (size_t)i);
    size_t pos = 12;
    for (unsigned i = 0; i < m.raw_counts[0]; i++) {
      Question q;
      if (!name(&pos, q.name)) return false;
      if (pos + 4 > n_) return why("question cut short");
      q.type = be16(pos); q.klass = be16(pos + 2); pos += 4;
      m.qd.push_back(q);
    }
    for (int s = 0; s < 3; s++) {
      for (unsigned i = 0; i < m.raw_counts[1 + s]; i++) {
        RR rr;
        if (!name(&pos, rr.owner)) return false;
        if (pos + 10 > n_) return why("RR envelope cut short");
        rr.type = be16(pos); rr.klass = be16(pos + 2); rr.ttl = be32(pos + 4); size_t rdlen = be16(pos + 8); pos += 10;
        if (pos + rdlen > n_) return why("RDATA runs past end of message");
        rr.rdata.assign((const char *)p_ + pos, rdlen); rr.rdata_off = pos;
        if (!rdata(rr, pos, rdlen)) return false;
        pos += rdlen;
        m.sec[s].push_back(rr);
      }
    }
    m.end_off = pos;
    v.lenient_ok = true;
    return true;
  }

  std::string strict_reason;
  void strict_fail(const std::string &r) { if (strict_reason.empty()) strict_reason = r; }

 private:
  const unsigned char *p_; size_t n_;
  uint16_t be16(size_t o) const { return (uint16_t)((p_[o] << 8) | p_[o + 1]); }
  uint32_t be32(size_t o) const { return ((uint32_t)p_[o] << 24) | ((uint32_t)p_[o + 1] << 16) | ((uint32_t)p_[o + 2] << 8) | p_[o + 3]; }
  bool why(const std::string &r) { if (v.reason.empty()) v.reason = r; return false; }

  // cursor-based RDATA readers; 'end' is the end of this RDATA
  bool rd_u8(size_t &c, size_t end, Field &f) { if (c + 1 > end) return why("RDATA field cut short"); f.kind = F_U8; f.num = p_[c]; c += 1; return true; }
  bool rd_u16(size_t &c, size_t end, Field &f) { if (c + 2 > end) return why("RDATA field cut short"); f.kind = F_U16; f.num = be16(c); c += 2; return true; }
  bool rd_u32(size_t &c, size_t end, Field &f) { if (c + 4 > end) return why("RDATA field cut short"); f.kind = F_U32; f.num = be32(c); c += 4; return true; }
  bool rd_name(size_t &c, size_t end, Field &f) { f.kind = F_NAME; size_t pos = c; if (!name(&pos, f.name)) return false; if (pos > end) return why("name in RDATA runs past RDLENGTH"); c = pos; return true; }
  bool rd_cstr(size_t &c, size_t end, Bytes &out) { if (c + 1 > end) return why("character-string missing"); size_t l = p_[c]; if (c + 1 + l > end) return why("character-string runs past RDLENGTH"); out.assign((const char *)p_ + c + 1, l); c += 1 + l; return true; }
  bool rd_rest(size_t &c, size_t end, Field &f, FieldKind k) { f.kind = k; f.bin.assign((const char *)p_ + c, end - c); c = end; return true; }
  bool rd_tlvs(size_t &c, size_t end, Field &f) {
    f.kind = F_OPTS;
    while (c < end) { if (c + 4 > end) return why("option TLV header cut short"); uint16_t code = be16(c); size_t l = be16(c + 2); if (c + 4 + l > end) return why("option TLV runs past RDLENGTH"); f.opts.push_back({code, Bytes((const char *)p_ + c + 4, l)}); c += 4 + l; }
    return true;
  }

  bool rdata(RR &rr, size_t pos, size_t rdlen) {
    size_t c = pos, end = pos + rdlen;
    std::vector<Field> &F = rr.fields;
    auto add = [&]() -> Field & { F.emplace_back(); return F.back(); };
    rr.decoded = true;
    switch (rr.type) {
      case T_A: { if (rdlen < 4) return why("A RDATA shorter than 4"); Field &f = add(); f.kind = F_ADDR4; f.bin.assign((const char *)p_ + c, 4); c += 4; break; }
      case T_AAAA: { if (rdlen < 16) return why("AAAA RDATA shorter than 16"); Field &f = add(); f.kind = F_ADDR6; f.bin.assign((const char *)p_ + c, 16); c += 16; break; }
      case T_NS: case T_CNAME: case T_PTR: if (!rd_name(c, end, add())) return false; break;
      case T_SOA: if (!rd_name(c, end, add()) || !rd_name(c, end, add())) return false; for (int i = 0; i < 5; i++) if (!rd_u32(c, end, add())) return false; break;
      case T_HINFO: for (int i = 0; i < 2; i++) { Field &f = add(); f.kind = F_STR; if (!rd_cstr(c, end, f.bin)) return false; if (!printable(f.bin)) strict_fail("non-printable HINFO string"); } break;
      case T_MX: if (!rd_u16(c, end, add()) || !rd_name(c, end, add())) return false; break;
      case T_TXT: { Field &f = add(); f.kind = F_ABIN; if (rdlen == 0) return why("TXT needs one or more character-strings"); while (c < end) { Bytes s; if (!rd_cstr(c, end, s)) return false; f.abin.push_back(s); } break; }
      case T_SIG: if (!rd_u16(c, end, add()) || !rd_u8(c, end, add()) || !rd_u8(c, end, add()) || !rd_u32(c, end, add()) || !rd_u32(c, end, add()) || !rd_u32(c, end, add()) || !rd_u16(c, end, add()) || !rd_name(c, end, add())) return false;
        if (c >= end) return why("SIG signature empty"); rd_rest(c, end, add(), F_BIN); break;
      case T_SRV: if (!rd_u16(c, end, add()) || !rd_u16(c, end, add()) || !rd_u16(c, end, add()) || !rd_name(c, end, add())) return false; break;
      case T_NAPTR: if (!rd_u16(c, end, add()) || !rd_u16(c, end, add())) return false; for (int i = 0; i < 3; i++) { Field &f = add(); f.kind = F_STR; if (!rd_cstr(c, end, f.bin)) return false; if (!printable(f.bin)) strict_fail("non-printable NAPTR string"); } if (!rd_name(c, end, add())) return false; break;
      case T_OPT: {  // RFC 6891: CLASS = requestor's UDP payload size, TTL = ext-rcode(8) version(8) flags(16)
        Field &u = add(); u.kind = F_U16; u.num = rr.klass; Field &ver = add(); ver.kind = F_U8; ver.num = (rr.ttl >> 16) & 0xff; Field &fl = add(); fl.kind = F_U16; fl.num = rr.ttl & 0xffff;
        if (!rd_tlvs(c, end, add())) return false; break; }
      case T_TLSA: if (!rd_u8(c, end, add()) || !rd_u8(c, end, add()) || !rd_u8(c, end, add())) return false; if (c >= end) return why("TLSA data empty"); rd_rest(c, end, add(), F_BIN); break;
      case T_SVCB: case T_HTTPS: if (!rd_u16(c, end, add()) || !rd_name(c, end, add()) || !rd_tlvs(c, end, add())) return false; break;
      case T_URI: if (!rd_u16(c, end, add()) || !rd_u16(c, end, add())) return false; if (c >= end) return why("URI target empty"); rd_rest(c, end, add(), F_STR); if (!printable(F.back().bin)) return why("non-printable URI target"); break;
      case T_CAA: { if (!rd_u8(c, end, add())) return false; Field &t = add(); t.kind = F_STR; if (!rd_cstr(c, end, t.bin)) return false; if (t.bin.empty()) return why("CAA tag empty"); if (!printable(t.bin)) strict_fail("non-printable CAA tag"); if (c >= end) return why("CAA value empty"); rd_rest(c, end, add(), F_BIN); break; }
      default: rr.decoded = false; break;   // opaque
    }
    if (c != end && rr.decoded) { /* unused RDATA tail: tolerated by lenient extraction, not strict */ strict_fail("RDLENGTH larger than the type's RDATA"); }
    return true;
  }
};

// Full decode with both verdicts.  'supported subset' rules (DESIGN 4) live here.
inline Verdict decode(const unsigned char *p, size_t n, Msg &m) {
  Decoder d(p, n);
  bool ok = d.decode(m);
  Verdict v = d.v;
  v.lenient_ok = ok;
  if (!ok) return v;
  std::string &sr = d.strict_reason;
  auto fail = [&](const std::string &r) { if (sr.empty()) sr = r; };
  if (m.qd.size() != 1) fail("question count is not exactly 1");
  if (m.opcode != 0 && m.opcode != 1 && m.opcode != 2 && m.opcode != 4 && m.opcode != 5) fail("opcode not one c-ares documents");
  if (m.end_off != n) fail("trailing bytes after the last RR");
  auto class_ok = [](uint16_t k) { return k == 1 || k == 3 || k == 4 || k == 254; };
  for (auto &q : m.qd) { if (!(class_ok(q.klass) || q.klass == 255)) fail("question class outside IN/CH/HS/NONE/ANY"); if (q.type == 0) fail("question type 0"); }
  int nopt = 0;
  for (int s = 0; s < 3; s++) for (auto &rr : m.sec[s]) {
    if (rr.type == T_ANY) fail("RR of type ANY");
    if (rr.type == 0) fail("RR of type 0");
    if (known_type(rr.type) && rr.type != T_OPT && !(class_ok(rr.klass) || (rr.klass == 255 && rr.type == T_SIG))) fail("RR class outside IN/CH/HS/NONE for a decoded type");
    if (rr.type == T_OPT) nopt++;
    if (rr.type == T_SVCB || rr.type == T_HTTPS) { const Field &f = rr.fields.back(); for (size_t i = 1; i < f.opts.size(); i++) if (f.opts[i].first <= f.opts[i - 1].first) fail("SvcParamKeys not strictly increasing (RFC 9460 2.2)"); }
    if (rr.type == T_OPT) { const Field &f = rr.fields.back(); std::map<uint16_t, int> seen; for (auto &o : f.opts) if (seen[o.first]++) fail("duplicate EDNS option code"); }
  }
  if (nopt > 1) fail("more than one OPT RR (RFC 6891 6.1.1)");
  v.strict_ok = sr.empty();
  if (!v.strict_ok) v.reason = sr;
  return v;
}

// ---------------------------------------------------------------- presentation format (RFC 1035 5.1)
// text -> labels; returns false on a malformed escape.  Trailing dot accepted; "" and "." are the root.
inline bool unescape_name(const std::string &text, Name &out) {
  out.labels.clear();
  if (text.empty() || text == ".") return true;
  Bytes cur; size_t i = 0; bool any = false;
  while (i < text.size()) {
    unsigned char c = (unsigned char)text[i];
    if (c == '\\') {
      if (i + 1 >= text.size()) return false;
      unsigned char d = (unsigned char)text[i + 1];
      if (d >= '0' && d <= '9') {
        if (i + 3 >= text.size()) return false;
        unsigned char e = (unsigned char)text[i + 2], f = (unsigned char)text[i + 3];
        if (e < '0' || e > '9' || f < '0' || f > '9') return false;
        unsigned val = (unsigned)(d - '0') * 100 + (unsigned)(e - '0') * 10 + (unsigned)(f - '0');
        if (val > 255) return false;
        cur += (char)val; i += 4;
      } else { cur += (char)d; i += 2; }
      any = true;
    } else if (c == '.') {
      if (cur.empty()) return false;      // empty label inside a name
      out.labels.push_back(cur); cur.clear(); i++; any = false;
    } else { cur += (char)c; i++; any = true; }
  }
  (void)any;
  if (!cur.empty()) out.labels.push_back(cur);
  return true;
}
// labels -> text, escaping everything that is not a letter, digit, '-' or '_' as \DDD (always unambiguous)
inline std::string escape_name(const Name &n, bool hostname_safe_only = false) {
  std::string o;
  for (size_t i = 0; i < n.labels.size(); i++) {
    if (i) o += '.';
    for (unsigned char c : n.labels[i]) {
      bool plain = (c >= 'a' && c <= 'z') || (c >= 'A' && c <= 'Z') || (c >= '0' && c <= '9') || c == '-' || c == '_';
      if (plain && !hostname_safe_only) o += (char)c; else if (plain) o += (char)c;
      else { char b[8]; snprintf(b, sizeof b, "\\%03u", (unsigned)c); o += b; }
    }
  }
  return o;
}

// ---------------------------------------------------------------- encoder
struct EncOpts {
  // compression decision per name occurrence: a callback chooses among the candidate offsets
  //   mode 0: never compress   1: longest suffix, label-start targets   2: longest suffix, prefer pointing at an earlier pointer (pointer chains)
  //   3: compress only whole names
  int mode = 1;
  bool compress_rdata_names_of_new_types = false;  // RFC 3597: only RFC 1035 types may compress RDATA names
};

class Encoder {
 public:
  Bytes out;
  EncOpts opt;
  // suffix (as joined lowercase-insensitive? no: exact label bytes) -> offsets where that suffix starts (label start or pointer)
  std::map<std::vector<Bytes>, std::vector<std::pair<size_t, bool>>> table;  // offset, is_pointer

  void u8(unsigned v) { out += (char)(v & 0xff); }
  void u16(unsigned v) { out += (char)((v >> 8) & 0xff); out += (char)(v & 0xff); }
  void u32(uint32_t v) { u16(v >> 16); u16(v & 0xffff); }
  void raw(const Bytes &b) { out += b; }
  void cstr(const Bytes &b) { u8((unsigned)b.size()); out += b.substr(0, 255); }

  void name(const Name &n, bool allow_compress = true, int mode_override = -1) {
    int mode = mode_override >= 0 ? mode_override : opt.mode;
    size_t nl = n.labels.size();
    for (size_t i = 0; i < nl; i++) {
      std::vector<Bytes> suffix(n.labels.begin() + (long)i, n.labels.end());
      if (allow_compress && mode != 0 && !(mode == 3 && i != 0)) {
        auto it = table.find(suffix);
        if (it != table.end()) {
          // choose target
          size_t target = (size_t)-1;
          for (auto &c : it->second) { if (c.first >= 0x4000) continue; if (mode == 2 && c.second) { target = c.first; break; } if (target == (size_t)-1 && !c.second) target = c.first; }
          if (target == (size_t)-1) for (auto &c : it->second) if (c.first < 0x4000) { target = c.first; break; }
          if (target != (size_t)-1) {
            size_t here = out.size();
            if (here < 0x4000) table[suffix].push_back({here, true});
            u16(0xc000 | (unsigned)target);
            return;
          }
        }
      }
      size_t here = out.size();
      if (here < 0x4000) table[suffix].push_back({here, false});
      u8((unsigned)n.labels[i].size()); out += n.labels[i];
    }
    u8(0);
  }

  void field(const Field &f, bool compress_names) {
    switch (f.kind) {
      case F_U8: u8(f.num); break;
      case F_U16: u16(f.num); break;
      case F_U32: u32(f.num); break;
      case F_NAME: name(f.name, compress_names); break;
      case F_STR: cstr(f.bin); break;
      case F_BIN: case F_ADDR4: case F_ADDR6: raw(f.bin); break;
      case F_ABIN: for (auto &s : f.abin) cstr(s); break;
      case F_OPTS: for (auto &o : f.opts) { u16(o.first); u16((unsigned)o.second.size()); raw(o.second); } break;
    }
  }

  static bool rfc1035_type(uint16_t t) { return t == T_NS || t == T_CNAME || t == T_SOA || t == T_PTR || t == T_MX; }

  void rr(const RR &r) {
    name(r.owner);
    u16(r.type);
    if (r.type == T_OPT && r.decoded && r.fields.size() == 4) {
      u16(r.fields[0].num);                                                  // class = UDP size
      u32((r.ttl & 0xff000000u) | ((r.fields[1].num & 0xff) << 16) | (r.fields[2].num & 0xffff));   // ext-rcode kept in r.ttl's top byte
    } else { u16(r.klass); u32(r.ttl); }
    size_t lenpos = out.size(); u16(0);
    if (!r.decoded) raw(r.rdata);
    else {
      bool comp = rfc1035_type(r.type) || opt.compress_rdata_names_of_new_types;
      size_t start = (r.type == T_OPT) ? 3 : 0;
      for (size_t i = start; i < r.fields.size(); i++) {
        const Field &f = r.fields[i];
        // URI target and SIG/TLSA/CAA tails are raw; CAA tag and HINFO/NAPTR strings are character-strings
        if (r.type == T_URI && i == 2) raw(f.bin); else field(f, comp);
      }
    }
    size_t rdlen = out.size() - lenpos - 2;
    out[lenpos] = (char)((rdlen >> 8) & 0xff); out[lenpos + 1] = (char)(rdlen & 0xff);
  }

  void header(const Msg &m, int qd, int an, int ns, int ar) {
    u16(m.id);
    unsigned f = (m.qr ? 0x8000 : 0) | ((unsigned)(m.opcode & 0xf) << 11) | (m.aa ? 0x400 : 0) | (m.tc ? 0x200 : 0) | (m.rd ? 0x100 : 0) | (m.ra ? 0x80 : 0) | (m.z ? 0x40 : 0) | (m.ad ? 0x20 : 0) | (m.cd ? 0x10 : 0) | (m.rcode4 & 0xf);
    u16(f); u16((unsigned)qd); u16((unsigned)an); u16((unsigned)ns); u16((unsigned)ar);
  }

  Bytes message(const Msg &m) {
    out.clear(); table.clear();
    header(m, (int)m.qd.size(), (int)m.sec[0].size(), (int)m.sec[1].size(), (int)m.sec[2].size());
    for (auto &q : m.qd) { name(q.name); u16(q.type); u16(q.klass); }
    for (int s = 0; s < 3; s++) for (auto &r : m.sec[s]) rr(r);
    return out;
  }
};

// convenience
inline Name mkname(std::initializer_list<const char *> ls) { Name n; for (auto l : ls) n.labels.push_back(l); return n; }
inline Name name_from_text(const std::string &t) { Name n; unescape_name(t, n); return n; }
inline Bytes lower(Bytes b) { for (auto &c : b) if (c >= 'A' && c <= 'Z') c = (char)(c + 32); return b; }
inline bool name_eq_ci(const Name &a, const Name &b) { if (a.labels.size() != b.labels.size()) return false; for (size_t i = 0; i < a.labels.size(); i++) if (lower(a.labels[i]) != lower(b.labels[i])) return false; return true; }

}  // namespace ref
