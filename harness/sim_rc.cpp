// rapidcheck front end of the simulator: mode = property id; case = scenario text.
#include "sim_scn.hpp"
#include "sim_gen.hpp"
#include "rc_main.hpp"

using namespace vf;

static std::string g_prop = "C01";

namespace vf {
bool run_case(const std::string &text, std::string &sig, bool &nontrivial) {
  // the property under check is named by the first comment-free line "prop Cxx" if present, else by the mode
  std::string prop = g_prop; { size_t p = text.find("prop "); if (p == 0 || (p != std::string::npos && text[p - 1] == '\n')) prop = text.substr(p + 5, 3); }
  sim::RunResult r = sim::run_prop(text, prop);
  for (auto &kv : r.counters) stats().count(kv.first, kv.second);
  nontrivial = r.nontrivial;
  if (!r.v.ok) { sig = r.v.sig; if (!r.v.detail.empty()) msg("DETAIL %s\n", r.v.detail.substr(0, 1500).c_str()); return false; }
  return true;
}
}  // namespace vf

int main(int argc, char **argv) {
  ares_library_init_mem(ARES_LIB_INIT_ALL, ledger_malloc, ledger_free, ledger_realloc);
  std::vector<Mode> modes;
  for (const char *p : {"C01", "C05", "C06", "C07", "C08", "C09", "C10", "C12", "C13", "C14", "C17", "C20"}) {
    std::string prop = p;
    modes.push_back({prop, [prop] {
      auto bytes = rc::gen::scale(4.0, rc::gen::container<std::vector<uint8_t>>(rc::gen::arbitrary<uint8_t>()));
      return rc::gen::map(bytes, [prop](std::vector<uint8_t> v) { return "prop " + prop + "\n" + sim::gen_scenario(v.data(), v.size(), prop); });
    }});
  }
  for (int i = 1; i < argc; i++) if (argv[i][0] == 'C') g_prop = argv[i];
  int rc = rc_harness_main(argc, argv, modes);
  ares_library_cleanup();
  return rc;
}
